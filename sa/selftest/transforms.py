"""AST-level behaviour-preserving transformations of the whole package (equivalent-variant corpus)."""
import ast
import os


def package_sources(repo_root):
    out = {}
    base = os.path.join(repo_root, "discretisedfield")
    for dp, dn, fn in os.walk(base):
        dn[:] = [d for d in dn if d not in ("tests", "__pycache__")]
        for f in fn:
            if f.endswith(".py"):
                p = os.path.join(dp, f)
                with open(p, encoding="utf-8") as fh:
                    out[os.path.relpath(p, repo_root)] = fh.read()
    return out


def roundtrip(repo_root):
    """ast.unparse(ast.parse(src)) of every file: kills any dependence on layout, comments, quoting, line numbers"""
    return {rel: ast.unparse(ast.parse(src)) for rel, src in package_sources(repo_root).items()}


class _Renamer(ast.NodeTransformer):
    """consistent renaming of the local variables of every function (parameters keep their names: they are API)"""

    def __init__(self, suffix="_q"):
        self.suffix = suffix
        self.stack = []

    def _locals(self, fn):
        params = {a.arg for a in fn.args.posonlyargs + fn.args.args + fn.args.kwonlyargs}
        if fn.args.vararg:
            params.add(fn.args.vararg.arg)
        if fn.args.kwarg:
            params.add(fn.args.kwarg.arg)
        names = set()
        skip = set()
        for n in ast.walk(fn):
            if isinstance(n, (ast.Global, ast.Nonlocal)):
                skip |= set(n.names)
        def targets(t):
            if isinstance(t, ast.Name):
                names.add(t.id)
            elif isinstance(t, (ast.Tuple, ast.List)):
                for e in t.elts:
                    targets(e)
            elif isinstance(t, ast.Starred):
                targets(t.value)
        def walk(stmts):
            for st in stmts:
                if isinstance(st, (ast.FunctionDef, ast.AsyncFunctionDef, ast.ClassDef)):
                    continue
                if isinstance(st, ast.Assign):
                    for t in st.targets:
                        targets(t)
                elif isinstance(st, (ast.AugAssign, ast.AnnAssign)):
                    targets(st.target)
                elif isinstance(st, (ast.For, ast.AsyncFor)):
                    targets(st.target)
                elif isinstance(st, (ast.With, ast.AsyncWith)):
                    for it in st.items:
                        if it.optional_vars is not None:
                            targets(it.optional_vars)
                for sub in ast.walk(st) if not isinstance(st, (ast.FunctionDef, ast.ClassDef)) else []:
                    if isinstance(sub, ast.NamedExpr):
                        targets(sub.target)
                for fld in ("body", "orelse", "finalbody"):
                    b = getattr(st, fld, None)
                    if isinstance(b, list) and b and isinstance(b[0], ast.stmt):
                        walk(b)
                for h in getattr(st, "handlers", []) or []:
                    walk(h.body)
        walk(fn.body)
        return {n for n in names if n not in params and n not in skip and not n.startswith("__")}

    def visit_FunctionDef(self, node):
        loc = self._locals(node)
        self.stack.append(loc)
        node.body = [self.visit(s) for s in node.body]
        self.stack.pop()
        return node

    visit_AsyncFunctionDef = visit_FunctionDef

    def visit_Name(self, node):
        for loc in reversed(self.stack):
            if node.id in loc:
                return ast.copy_location(ast.Name(id=node.id + self.suffix, ctx=node.ctx), node)
        return node

    def visit_ClassDef(self, node):
        saved = self.stack
        self.stack = []
        node.body = [self.visit(s) for s in node.body]
        self.stack = saved
        return node


def rename_locals(repo_root, suffix="_q"):
    out = {}
    for rel, src in package_sources(repo_root).items():
        tree = ast.parse(src)
        tree = _Renamer(suffix).visit(tree)
        ast.fix_missing_locations(tree)
        new = ast.unparse(tree)
        compile(new, rel, "exec")
        out[rel] = new
    return out


class _CondRewriter(ast.NodeTransformer):
    """behaviour-preserving rewrites of conditions: comparisons are mirrored (a < b -> b > a, a == b -> b == a),
    `x is None` / `x is not None` keep their form, `not`-free two-way ifs are turned round
    (`if c: A else: B` -> `if not c: B else: A`) and conditional expressions likewise."""
    MIRROR = {ast.Lt: ast.Gt, ast.Gt: ast.Lt, ast.LtE: ast.GtE, ast.GtE: ast.LtE, ast.Eq: ast.Eq, ast.NotEq: ast.NotEq}

    def visit_Compare(self, node):
        self.generic_visit(node)
        if len(node.ops) == 1 and type(node.ops[0]) in self.MIRROR and not isinstance(node.comparators[0], ast.Constant):
            return ast.Compare(left=node.comparators[0], ops=[self.MIRROR[type(node.ops[0])]()], comparators=[node.left])
        return node

    def visit_If(self, node):
        self.generic_visit(node)
        two_way = node.orelse and not (len(node.orelse) == 1 and isinstance(node.orelse[0], ast.If))
        if two_way:
            return ast.If(test=ast.UnaryOp(op=ast.Not(), operand=node.test), body=node.orelse, orelse=node.body)
        return node

    def visit_IfExp(self, node):
        self.generic_visit(node)
        return ast.IfExp(test=ast.UnaryOp(op=ast.Not(), operand=node.test), body=node.orelse, orelse=node.body)


def rewrite_conditions(repo_root):
    out = {}
    for rel, src in package_sources(repo_root).items():
        tree = _CondRewriter().visit(ast.parse(src))
        ast.fix_missing_locations(tree)
        new = ast.unparse(tree)
        compile(new, rel, "exec")
        out[rel] = new
    return out


WHOLE_REPO = {"roundtrip": roundtrip, "rename-locals": rename_locals, "rewrite-conditions": rewrite_conditions}
EXTRA = {}


# ----------------------------------------------------------------------------------------------------------------
# round 3: further whole-repository rewrites of the kind a clean-up pull request makes

def _terminates(stmts):
    """the block cannot fall through (ends in return / raise / continue / break, or an if/else whose arms all do)"""
    if not stmts:
        return False
    last = stmts[-1]
    if isinstance(last, (ast.Return, ast.Raise, ast.Continue, ast.Break)):
        return True
    if isinstance(last, ast.If) and last.orelse:
        return _terminates(last.body) and _terminates(last.orelse)
    return False


class _ElseUnnester(ast.NodeTransformer):
    """`if c: ...; return X  else: REST`  ->  `if c: ...; return X` followed by REST (guard-clause style)"""

    def _block(self, stmts):
        out = []
        for st in stmts:
            st = self.visit(st)
            if isinstance(st, ast.If) and st.orelse and _terminates(st.body):
                orelse = st.orelse
                st.orelse = []
                out.append(st)
                out.extend(self._block_noop(orelse))
            else:
                out.append(st)
        return out

    def _block_noop(self, stmts):
        # already visited
        out = []
        for st in stmts:
            if isinstance(st, ast.If) and st.orelse and _terminates(st.body):
                orelse = st.orelse
                st.orelse = []
                out.append(st)
                out.extend(self._block_noop(orelse))
            else:
                out.append(st)
        return out

    def generic_visit(self, node):
        for fld in ("body", "orelse", "finalbody"):
            b = getattr(node, fld, None)
            if isinstance(b, list) and b and isinstance(b[0], ast.stmt):
                setattr(node, fld, self._block(b))
        for h in getattr(node, "handlers", []) or []:
            h.body = self._block(h.body)
        return node


class _ElseNester(ast.NodeTransformer):
    """the reverse: after `if c: ...; return/raise` (no else) the rest of the block moves into an `else:`"""

    def _block(self, stmts):
        stmts = [self.visit(s) for s in stmts]
        for i, st in enumerate(stmts):
            if isinstance(st, ast.If) and not st.orelse and _terminates(st.body) and i + 1 < len(stmts):
                rest = stmts[i + 1:]
                if any(isinstance(r, (ast.FunctionDef, ast.ClassDef)) for r in rest):
                    continue
                st.orelse = self._renest(rest)
                return stmts[:i + 1]
        return stmts

    def _renest(self, stmts):
        for i, st in enumerate(stmts):
            if isinstance(st, ast.If) and not st.orelse and _terminates(st.body) and i + 1 < len(stmts):
                st.orelse = self._renest(stmts[i + 1:])
                return stmts[:i + 1]
        return stmts

    def generic_visit(self, node):
        for fld in ("body", "orelse", "finalbody"):
            b = getattr(node, fld, None)
            if isinstance(b, list) and b and isinstance(b[0], ast.stmt):
                setattr(node, fld, self._block(b))
        for h in getattr(node, "handlers", []) or []:
            h.body = self._block(h.body)
        return node


class _GuardSplitter(ast.NodeTransformer):
    """`if a or b: raise E(...)` -> `if a: raise E(...)` `if b: raise E(...)` (the raise ends the block either way)"""

    def _block(self, stmts):
        out = []
        for st in stmts:
            st = self.visit(st)
            if (isinstance(st, ast.If) and not st.orelse and len(st.body) == 1 and isinstance(st.body[0], ast.Raise)
                    and isinstance(st.test, ast.BoolOp) and isinstance(st.test.op, ast.Or)):
                for v in st.test.values:
                    out.append(ast.If(test=v, body=[st.body[0]], orelse=[]))
            else:
                out.append(st)
        return out

    def generic_visit(self, node):
        for fld in ("body", "orelse", "finalbody"):
            b = getattr(node, fld, None)
            if isinstance(b, list) and b and isinstance(b[0], ast.stmt):
                setattr(node, fld, self._block(b))
        for h in getattr(node, "handlers", []) or []:
            h.body = self._block(h.body)
        return node


class _KwReverser(ast.NodeTransformer):
    """keyword arguments of every call in reverse order (their values are side-effect free in this code base)"""

    def visit_Call(self, node):
        self.generic_visit(node)
        if len(node.keywords) > 1 and all(k.arg is not None for k in node.keywords):
            node.keywords = list(reversed(node.keywords))
        return node


class _ArgHoister(ast.NodeTransformer):
    """every call that is the whole right-hand side of a simple assignment / return gets its non-trivial arguments
    bound to fresh temporaries first, in evaluation order (`r = f(g(x), k=h(y))` -> `_t1 = g(x); _t2 = h(y); r = f(_t1, k=_t2)`)"""

    def __init__(self):
        self.n = 0

    def _simple(self, e):
        return isinstance(e, (ast.Name, ast.Constant)) or (isinstance(e, ast.Attribute) and self._simple(e.value)) \
            or (isinstance(e, ast.UnaryOp) and isinstance(e.operand, ast.Constant))

    def _pure_callee(self, f):
        # evaluating the callee expression before the arguments must not matter: a name or a dotted name
        return self._simple(f)

    def _hoist(self, call, pre):
        if not isinstance(call, ast.Call) or not self._pure_callee(call.func):
            return
        if any(isinstance(a, ast.Starred) for a in call.args) or any(k.arg is None for k in call.keywords):
            return
        for i, a in enumerate(call.args):
            if not self._simple(a) and not isinstance(a, (ast.Lambda, ast.GeneratorExp)):
                self.n += 1
                nm = f"_hoisted{self.n}"
                pre.append(ast.Assign(targets=[ast.Name(id=nm, ctx=ast.Store())], value=a))
                call.args[i] = ast.Name(id=nm, ctx=ast.Load())
        for k in call.keywords:
            if not self._simple(k.value) and not isinstance(k.value, (ast.Lambda, ast.GeneratorExp)):
                self.n += 1
                nm = f"_hoisted{self.n}"
                pre.append(ast.Assign(targets=[ast.Name(id=nm, ctx=ast.Store())], value=k.value))
                k.value = ast.Name(id=nm, ctx=ast.Load())

    def _block(self, stmts):
        out = []
        for st in stmts:
            st = self.visit(st)
            pre = []
            if isinstance(st, ast.Assign) and len(st.targets) == 1 and isinstance(st.targets[0], ast.Name):
                self._hoist(st.value, pre)
            elif isinstance(st, ast.Return) and st.value is not None:
                self._hoist(st.value, pre)
            out.extend(pre)
            out.append(st)
        return out

    def visit_FunctionDef(self, node):
        saved = self.n
        self.n = 0
        node.body = self._block(node.body)
        self.n = saved
        return node

    def visit_ClassDef(self, node):
        node.body = [self.visit(s) for s in node.body]
        return node

    def visit_Module(self, node):
        node.body = [self.visit(s) for s in node.body]
        return node

    def generic_visit(self, node):
        for fld in ("body", "orelse", "finalbody"):
            b = getattr(node, fld, None)
            if isinstance(b, list) and b and isinstance(b[0], ast.stmt):
                setattr(node, fld, self._block(b))
        for h in getattr(node, "handlers", []) or []:
            h.body = self._block(h.body)
        return node


class _Annotator(ast.NodeTransformer):
    """every parameter without annotation gets one (`object`), every function a return annotation: type hints change no
    behaviour"""

    def visit_FunctionDef(self, node):
        self.generic_visit(node)
        for a in node.args.posonlyargs + node.args.args + node.args.kwonlyargs:
            if a.annotation is None and a.arg not in ("self", "cls"):
                a.annotation = ast.Name(id="object", ctx=ast.Load())
        if node.returns is None and node.name != "__init__":
            node.returns = ast.Name(id="object", ctx=ast.Load())
        return node


class _EntryLogger(ast.NodeTransformer):
    """a debug-log call at the start of every function with a body of more than one statement (after the docstring): an added
    observer that no property mentions"""

    def visit_FunctionDef(self, node):
        self.generic_visit(node)
        body = node.body
        k = 1 if body and isinstance(body[0], ast.Expr) and isinstance(body[0].value, ast.Constant) and isinstance(body[0].value.value, str) else 0
        if len(body) - k > 1 and not any(isinstance(n, (ast.Yield, ast.YieldFrom)) for n in ast.walk(node)):
            call = ast.Expr(value=ast.Call(func=ast.Attribute(value=ast.Call(func=ast.Attribute(value=ast.Name(id="logging", ctx=ast.Load()), attr="getLogger", ctx=ast.Load()), args=[ast.Constant(value="discretisedfield")], keywords=[]), attr="debug", ctx=ast.Load()),
                                           args=[ast.Constant(value=f"enter {node.name}")], keywords=[]))
            node.body = body[:k] + [call] + body[k:]
        return node

    def visit_Module(self, node):
        self.generic_visit(node)
        k = 1 if node.body and isinstance(node.body[0], ast.Expr) and isinstance(node.body[0].value, ast.Constant) else 0
        node.body = node.body[:k] + [ast.Import(names=[ast.alias(name="logging")])] + node.body[k:]
        return node


class _ConstExtractor(ast.NodeTransformer):
    """float literals inside functions become module-level constants (`_K1 = 0.5` ... `x * _K1`): naming a magic number"""

    def __init__(self):
        self.consts = {}
        self.depth = 0

    def visit_FunctionDef(self, node):
        self.depth += 1
        self.generic_visit(node)
        self.depth -= 1
        return node

    def visit_Constant(self, node):
        if self.depth and isinstance(node.value, float) and node.value not in (0.0, 1.0):
            name = self.consts.setdefault(repr(node.value), f"_K{len(self.consts) + 1}")
            return ast.copy_location(ast.Name(id=name, ctx=ast.Load()), node)
        return node

    def visit_Module(self, node):
        self.generic_visit(node)
        k = 0
        while k < len(node.body) and (isinstance(node.body[k], (ast.Import, ast.ImportFrom)) or
                                      (isinstance(node.body[k], ast.Expr) and isinstance(node.body[k].value, ast.Constant))):
            k += 1
        defs = [ast.Assign(targets=[ast.Name(id=n, ctx=ast.Store())], value=ast.Constant(value=float(v)), lineno=1, col_offset=0)
                for v, n in self.consts.items()]
        node.body = node.body[:k] + defs + node.body[k:]
        return node


class _KwToPositional(ast.NodeTransformer):
    """constructor calls of Field / Mesh / Region pass their leading keyword arguments positionally where the keyword is the
    next positional parameter (`Field(mesh, nvdim=3, value=v)` -> `Field(mesh, 3, v)`)"""
    # positional-or-keyword parameters only (Mesh.__init__ is keyword-only)
    SIGS = {"Field": ["mesh", "nvdim", "value", "norm", "vdims", "dtype", "unit", "valid", "vdim_mapping"],
            "Region": ["p1", "p2", "dims", "units", "tolerance_factor"]}

    def __init__(self):
        self.cls = []

    def visit_ClassDef(self, node):
        self.cls.append(node.name)
        self.generic_visit(node)
        self.cls.pop()
        return node

    def visit_Call(self, node):
        self.generic_visit(node)
        f = ast.unparse(node.func)
        name = None
        if f in ("df.Field", "df.Region"):
            name = f[3:]
        elif f in ("self.__class__", "cls") and self.cls and self.cls[-1] in self.SIGS:
            name = self.cls[-1]
        if name is None or any(isinstance(a, ast.Starred) for a in node.args) or any(k.arg is None for k in node.keywords):
            return node
        sig = self.SIGS[name]
        while node.keywords and len(node.args) < len(sig) and node.keywords[0].arg == sig[len(node.args)]:
            node.args.append(node.keywords.pop(0).value)
        return node


class _DocstringEditor(ast.NodeTransformer):
    """every function and class gets a docstring sentence more (or a docstring, where it had none)"""

    def _doc(self, node):
        self.generic_visit(node)
        b = node.body
        if b and isinstance(b[0], ast.Expr) and isinstance(b[0].value, ast.Constant) and isinstance(b[0].value.value, str):
            b[0].value = ast.Constant(b[0].value.value + "\n\n        Reviewed for clarity.\n        ")
        else:
            b.insert(0, ast.Expr(ast.Constant("Documented during a clean-up.")))
        return node

    visit_FunctionDef = visit_ClassDef = _doc


class _MessageEditor(ast.NodeTransformer):
    """the text of every exception message is reworded (type and condition of the exception untouched)"""

    def visit_Raise(self, node):
        self.generic_visit(node)
        e = node.exc
        if isinstance(e, ast.Call) and e.args:
            a0 = e.args[0]
            if isinstance(a0, ast.Constant) and isinstance(a0.value, str):
                e.args[0] = ast.Constant("Invalid input: " + a0.value)
            elif isinstance(a0, ast.JoinedStr):
                a0.values.insert(0, ast.Constant("Invalid input: "))
        return node


class _ResultTemporary(ast.NodeTransformer):
    """`return <call or operation>` becomes `result_ = <...>; return result_`"""

    def visit_FunctionDef(self, node):
        self.generic_visit(node)
        node.body = self._block(node.body)
        return node

    def _block(self, stmts):
        out = []
        for st in stmts:
            for f in ("body", "orelse", "finalbody"):
                if isinstance(getattr(st, f, None), list) and not isinstance(st, (ast.FunctionDef, ast.ClassDef, ast.AsyncFunctionDef)):
                    setattr(st, f, self._block(getattr(st, f)))
            if isinstance(st, ast.Try):
                for h in st.handlers:
                    h.body = self._block(h.body)
            if isinstance(st, ast.Return) and isinstance(st.value, (ast.Call, ast.BinOp, ast.Subscript, ast.Compare)):
                out.append(ast.Assign(targets=[ast.Name("result_", ast.Store())], value=st.value))
                out.append(ast.Return(ast.Name("result_", ast.Load())))
            else:
                out.append(st)
        return out


class _SelfAttrAlias(ast.NodeTransformer):
    """`self.mesh` / `self.region` / `self.field` read several times in a method is bound once to a local at the top (methods
    that rebind the attribute are left alone; the alias names the same object, in-place changes show through it)"""
    ATTRS = ("mesh", "region", "field")

    def visit_FunctionDef(self, node):
        self.generic_visit(node)
        if not node.args.args or node.args.args[0].arg != "self":
            return node
        if any(isinstance(n, (ast.Lambda, ast.FunctionDef, ast.ListComp, ast.GeneratorExp, ast.DictComp, ast.SetComp))
               for st in node.body for n in ast.walk(st)):
            return node             # scopes that would capture the alias: left alone
        for attr in self.ATTRS:
            loads = [n for st in node.body for n in ast.walk(st) if isinstance(n, ast.Attribute) and n.attr == attr
                     and isinstance(n.value, ast.Name) and n.value.id == "self" and isinstance(n.ctx, ast.Load)]
            stores = [n for st in node.body for n in ast.walk(st) if isinstance(n, ast.Attribute) and n.attr in (attr, "_" + attr)
                      and isinstance(n.value, ast.Name) and n.value.id == "self" and not isinstance(n.ctx, ast.Load)]
            names = {n.id for st in node.body for n in ast.walk(st) if isinstance(n, ast.Name)} | {a.arg for a in node.args.args}
            alias = f"{attr}_alias_"
            if len(loads) < 2 or stores or alias in names:
                continue

            class R(ast.NodeTransformer):
                def visit_Attribute(self_, n):
                    self_.generic_visit(n)
                    if n.attr == attr and isinstance(n.value, ast.Name) and n.value.id == "self" and isinstance(n.ctx, ast.Load):
                        return ast.copy_location(ast.Name(alias, ast.Load()), n)
                    return n
            k = 1 if (node.body and isinstance(node.body[0], ast.Expr) and isinstance(node.body[0].value, ast.Constant)) else 0
            body = [R().visit(st) for st in node.body[k:]]
            bind = ast.Assign(targets=[ast.Name(alias, ast.Store())],
                              value=ast.Attribute(ast.Name("self", ast.Load()), attr, ast.Load()))
            node.body = node.body[:k] + [bind] + body
        return node


class _CompareSwap(ast.NodeTransformer):
    """`a == b` is written `b == a`, `a < b` is written `b > a` (single comparisons of two side-effect-free operands)"""
    SWAP = {ast.Eq: ast.Eq, ast.NotEq: ast.NotEq, ast.Lt: ast.Gt, ast.Gt: ast.Lt, ast.LtE: ast.GtE, ast.GtE: ast.LtE}

    def visit_Compare(self, node):
        self.generic_visit(node)
        if len(node.ops) == 1 and type(node.ops[0]) in self.SWAP and \
                not any(isinstance(n, (ast.Call, ast.NamedExpr, ast.Await)) for x in (node.left, node.comparators[0]) for n in ast.walk(x)):
            return ast.copy_location(ast.Compare(left=node.comparators[0], ops=[self.SWAP[type(node.ops[0])]()],
                                                 comparators=[node.left]), node)
        return node


class _CompToLoop(ast.NodeTransformer):
    """`x = [f(i) for i in it]` (a statement of its own, one generator, no filter) becomes the accumulate loop
    `x = []; for i in it: x.append(f(i))`"""

    def visit_FunctionDef(self, node):
        self.generic_visit(node)
        node.body = self._block(node.body, {n.id for n in ast.walk(node) if isinstance(n, ast.Name)})
        return node

    def _block(self, stmts, names):
        out = []
        for st in stmts:
            for f in ("body", "orelse", "finalbody"):
                if isinstance(getattr(st, f, None), list) and not isinstance(st, (ast.FunctionDef, ast.ClassDef, ast.AsyncFunctionDef)):
                    setattr(st, f, self._block(getattr(st, f), names))
            if isinstance(st, ast.Try):
                for h in st.handlers:
                    h.body = self._block(h.body, names)
            v = getattr(st, "value", None)
            if isinstance(st, ast.Assign) and len(st.targets) == 1 and isinstance(st.targets[0], ast.Name) and \
                    isinstance(v, ast.ListComp) and len(v.generators) == 1 and not v.generators[0].ifs and \
                    not v.generators[0].is_async and isinstance(v.generators[0].target, ast.Name) and \
                    v.generators[0].target.id not in (names - {v.generators[0].target.id}) | {st.targets[0].id} and \
                    st.targets[0].id not in {n.id for n in ast.walk(v) if isinstance(n, ast.Name)} and \
                    sum(1 for n in ast.walk(v) if isinstance(n, (ast.ListComp, ast.GeneratorExp, ast.Lambda, ast.DictComp, ast.SetComp))) == 1:
                g = v.generators[0]
                name = st.targets[0].id
                out.append(ast.Assign(targets=[ast.Name(name, ast.Store())], value=ast.List([], ast.Load())))
                out.append(ast.For(target=g.target, iter=g.iter, orelse=[], body=[ast.Expr(ast.Call(
                    func=ast.Attribute(ast.Name(name, ast.Load()), "append", ast.Load()), args=[v.elt], keywords=[]))]))
            else:
                out.append(st)
        return out


class _IsinstanceSplit(ast.NodeTransformer):
    """`isinstance(x, (A, B))` is written `isinstance(x, A) or isinstance(x, B)` (x a plain name or attribute chain)"""

    def visit_Call(self, node):
        self.generic_visit(node)
        if isinstance(node.func, ast.Name) and node.func.id == "isinstance" and len(node.args) == 2 and not node.keywords and \
                isinstance(node.args[1], ast.Tuple) and 2 <= len(node.args[1].elts) <= 4 and \
                not any(isinstance(n, (ast.Call, ast.Subscript)) for n in ast.walk(node.args[0])):
            import copy as _c
            return ast.copy_location(ast.BoolOp(op=ast.Or(), values=[
                ast.Call(func=ast.Name("isinstance", ast.Load()), args=[_c.deepcopy(node.args[0]), t], keywords=[])
                for t in node.args[1].elts]), node)
        return node


class _ChainSplit(ast.NodeTransformer):
    """`a <= x <= b` is written `a <= x and x <= b` (x without calls)"""

    def visit_Compare(self, node):
        self.generic_visit(node)
        if len(node.ops) == 2 and not any(isinstance(n, (ast.Call, ast.NamedExpr)) for n in ast.walk(node.comparators[0])):
            import copy as _c
            return ast.copy_location(ast.BoolOp(op=ast.And(), values=[
                ast.Compare(left=node.left, ops=[node.ops[0]], comparators=[node.comparators[0]]),
                ast.Compare(left=_c.deepcopy(node.comparators[0]), ops=[node.ops[1]], comparators=[node.comparators[1]])]), node)
        return node


class _DictCall(ast.NodeTransformer):
    """a dict display whose keys are identifier strings is written as a `dict(key=value, ...)` call"""

    def visit_Dict(self, node):
        self.generic_visit(node)
        import keyword
        if node.keys and all(isinstance(k, ast.Constant) and isinstance(k.value, str) and k.value.isidentifier()
                             and not keyword.iskeyword(k.value) for k in node.keys) and \
                len({k.value for k in node.keys}) == len(node.keys):
            return ast.copy_location(ast.Call(func=ast.Name("dict", ast.Load()), args=[],
                                              keywords=[ast.keyword(arg=k.value, value=v) for k, v in zip(node.keys, node.values)]), node)
        return node


def _unique_signatures(repo_root):
    """method / function name -> positional parameter names (without self / cls), for names defined exactly once in the package
    with a plain signature (no *args / **kwargs / positional-only / keyword-only parameters)"""
    sigs, seen = {}, {}
    for rel, src in package_sources(repo_root).items():
        for n in ast.walk(ast.parse(src)):
            if isinstance(n, ast.FunctionDef):
                seen[n.name] = seen.get(n.name, 0) + 1
                a = n.args
                if a.vararg or a.kwarg or a.posonlyargs or a.kwonlyargs or n.name.startswith("__") or \
                        any(isinstance(d, ast.Name) and d.id in ("property", "staticmethod", "classmethod") or
                            isinstance(d, ast.Attribute) for d in n.decorator_list):
                    continue
                names = [x.arg for x in a.args]
                if names and names[0] in ("self", "cls"):
                    sigs[n.name] = names[1:]
    return {k: v for k, v in sigs.items() if seen.get(k) == 1 and v}


def positional_to_keyword(repo_root):
    """positional arguments of calls to the package's own (uniquely named) methods are written as keywords:
    `self.pad(widths, "wrap")` -> `self.pad(pad_width=widths, mode="wrap")`"""
    sigs = _unique_signatures(repo_root)

    class T(ast.NodeTransformer):
        def visit_Call(self, node):
            self.generic_visit(node)
            if isinstance(node.func, ast.Attribute) and node.func.attr in sigs and node.args and \
                    not any(isinstance(a, ast.Starred) for a in node.args) and not any(k.arg is None for k in node.keywords) and \
                    isinstance(node.func.value, (ast.Name, ast.Attribute)) and \
                    (ast.unparse(node.func.value).split(".")[0] in ("self", "field", "mesh", "region", "other", "cls")):
                names = sigs[node.func.attr]
                if len(node.args) <= len(names) and not ({k.arg for k in node.keywords} & set(names[:len(node.args)])):
                    node.keywords = [ast.keyword(arg=n_, value=a) for n_, a in zip(names, node.args)] + node.keywords
                    node.args = []
            return node
    out = {}
    for rel, src in package_sources(repo_root).items():
        tree = T().visit(ast.parse(src))
        ast.fix_missing_locations(tree)
        new = ast.unparse(tree)
        compile(new, rel, "exec")
        out[rel] = new
    return out


class _TernaryToIf(ast.NodeTransformer):
    """`name = A if c else B` (a statement of its own) becomes `if c: name = A  else: name = B`"""

    def visit_Assign(self, node):
        if len(node.targets) == 1 and isinstance(node.targets[0], ast.Name) and isinstance(node.value, ast.IfExp):
            import copy as _c
            ie = node.value
            return ast.copy_location(ast.If(test=ie.test,
                                            body=[ast.Assign(targets=[_c.deepcopy(node.targets[0])], value=ie.body)],
                                            orelse=[ast.Assign(targets=[_c.deepcopy(node.targets[0])], value=ie.orelse)]), node)
        return node


def _apply(cls):
    def run(repo_root):
        out = {}
        for rel, src in package_sources(repo_root).items():
            tree = cls().visit(ast.parse(src))
            ast.fix_missing_locations(tree)
            new = ast.unparse(tree)
            compile(new, rel, "exec")
            out[rel] = new
        return out
    run.__doc__ = cls.__doc__
    return run


# the rewrites every check must survive (a failure fails the thorough tier)
GATED = {"unnest-else", "nest-else", "split-guards", "reverse-keywords", "hoist-arguments", "annotate", "log-entry", "extract-constants", "positional-ctor-args",
         "edit-docstrings", "reword-messages", "result-temporary", "alias-self-attributes", "swap-comparisons",
         "comprehension-to-loop", "split-isinstance", "split-chained-comparisons", "dict-call"}
EXTRA.update({"unnest-else": _apply(_ElseUnnester), "nest-else": _apply(_ElseNester), "split-guards": _apply(_GuardSplitter),
              "reverse-keywords": _apply(_KwReverser), "hoist-arguments": _apply(_ArgHoister),
              "annotate": _apply(_Annotator), "log-entry": _apply(_EntryLogger), "extract-constants": _apply(_ConstExtractor), "positional-ctor-args": _apply(_KwToPositional),
              "edit-docstrings": _apply(_DocstringEditor), "reword-messages": _apply(_MessageEditor),
              "result-temporary": _apply(_ResultTemporary), "alias-self-attributes": _apply(_SelfAttrAlias),
              "swap-comparisons": _apply(_CompareSwap), "comprehension-to-loop": _apply(_CompToLoop),
              "split-isinstance": _apply(_IsinstanceSplit), "split-chained-comparisons": _apply(_ChainSplit),
              "dict-call": _apply(_DictCall), "positional-to-keyword": positional_to_keyword,
              "ternary-to-if": _apply(_TernaryToIf)})
