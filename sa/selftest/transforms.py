"""AST-level behaviour-preserving transformations of the whole package (equivalent-variant corpus)."""
import ast
import os


def package_sources(repo_root):
    out = {}
    base = os.path.join(repo_root, "discretisedfield")
    for dp, dn, fn in os.walk(base):
        dn[:] = [d for d in dn if d not in ("tests", "__pycache__")]
        for f in fn:
            if f.endswith(".py"):
                p = os.path.join(dp, f)
                with open(p, encoding="utf-8") as fh:
                    out[os.path.relpath(p, repo_root)] = fh.read()
    return out


def roundtrip(repo_root):
    """ast.unparse(ast.parse(src)) of every file: kills any dependence on layout, comments, quoting, line numbers"""
    return {rel: ast.unparse(ast.parse(src)) for rel, src in package_sources(repo_root).items()}


class _Renamer(ast.NodeTransformer):
    """consistent renaming of the local variables of every function (parameters keep their names: they are API)"""

    def __init__(self, suffix="_q"):
        self.suffix = suffix
        self.stack = []

    def _locals(self, fn):
        params = {a.arg for a in fn.args.posonlyargs + fn.args.args + fn.args.kwonlyargs}
        if fn.args.vararg:
            params.add(fn.args.vararg.arg)
        if fn.args.kwarg:
            params.add(fn.args.kwarg.arg)
        names = set()
        skip = set()
        for n in ast.walk(fn):
            if isinstance(n, (ast.Global, ast.Nonlocal)):
                skip |= set(n.names)
        def targets(t):
            if isinstance(t, ast.Name):
                names.add(t.id)
            elif isinstance(t, (ast.Tuple, ast.List)):
                for e in t.elts:
                    targets(e)
            elif isinstance(t, ast.Starred):
                targets(t.value)
        def walk(stmts):
            for st in stmts:
                if isinstance(st, (ast.FunctionDef, ast.AsyncFunctionDef, ast.ClassDef)):
                    continue
                if isinstance(st, ast.Assign):
                    for t in st.targets:
                        targets(t)
                elif isinstance(st, (ast.AugAssign, ast.AnnAssign)):
                    targets(st.target)
                elif isinstance(st, (ast.For, ast.AsyncFor)):
                    targets(st.target)
                elif isinstance(st, (ast.With, ast.AsyncWith)):
                    for it in st.items:
                        if it.optional_vars is not None:
                            targets(it.optional_vars)
                for sub in ast.walk(st) if not isinstance(st, (ast.FunctionDef, ast.ClassDef)) else []:
                    if isinstance(sub, ast.NamedExpr):
                        targets(sub.target)
                for fld in ("body", "orelse", "finalbody"):
                    b = getattr(st, fld, None)
                    if isinstance(b, list) and b and isinstance(b[0], ast.stmt):
                        walk(b)
                for h in getattr(st, "handlers", []) or []:
                    walk(h.body)
        walk(fn.body)
        return {n for n in names if n not in params and n not in skip and not n.startswith("__")}

    def visit_FunctionDef(self, node):
        loc = self._locals(node)
        self.stack.append(loc)
        node.body = [self.visit(s) for s in node.body]
        self.stack.pop()
        return node

    visit_AsyncFunctionDef = visit_FunctionDef

    def visit_Name(self, node):
        for loc in reversed(self.stack):
            if node.id in loc:
                return ast.copy_location(ast.Name(id=node.id + self.suffix, ctx=node.ctx), node)
        return node

    def visit_ClassDef(self, node):
        saved = self.stack
        self.stack = []
        node.body = [self.visit(s) for s in node.body]
        self.stack = saved
        return node


def rename_locals(repo_root, suffix="_q"):
    out = {}
    for rel, src in package_sources(repo_root).items():
        tree = ast.parse(src)
        tree = _Renamer(suffix).visit(tree)
        ast.fix_missing_locations(tree)
        new = ast.unparse(tree)
        compile(new, rel, "exec")
        out[rel] = new
    return out


class _CondRewriter(ast.NodeTransformer):
    """behaviour-preserving rewrites of conditions: comparisons are mirrored (a < b -> b > a, a == b -> b == a),
    `x is None` / `x is not None` keep their form, `not`-free two-way ifs are turned round
    (`if c: A else: B` -> `if not c: B else: A`) and conditional expressions likewise."""
    MIRROR = {ast.Lt: ast.Gt, ast.Gt: ast.Lt, ast.LtE: ast.GtE, ast.GtE: ast.LtE, ast.Eq: ast.Eq, ast.NotEq: ast.NotEq}

    def visit_Compare(self, node):
        self.generic_visit(node)
        if len(node.ops) == 1 and type(node.ops[0]) in self.MIRROR and not isinstance(node.comparators[0], ast.Constant):
            return ast.Compare(left=node.comparators[0], ops=[self.MIRROR[type(node.ops[0])]()], comparators=[node.left])
        return node

    def visit_If(self, node):
        self.generic_visit(node)
        two_way = node.orelse and not (len(node.orelse) == 1 and isinstance(node.orelse[0], ast.If))
        if two_way:
            return ast.If(test=ast.UnaryOp(op=ast.Not(), operand=node.test), body=node.orelse, orelse=node.body)
        return node

    def visit_IfExp(self, node):
        self.generic_visit(node)
        return ast.IfExp(test=ast.UnaryOp(op=ast.Not(), operand=node.test), body=node.orelse, orelse=node.body)


def rewrite_conditions(repo_root):
    out = {}
    for rel, src in package_sources(repo_root).items():
        tree = _CondRewriter().visit(ast.parse(src))
        ast.fix_missing_locations(tree)
        new = ast.unparse(tree)
        compile(new, rel, "exec")
        out[rel] = new
    return out


WHOLE_REPO = {"roundtrip": roundtrip, "rename-locals": rename_locals, "rewrite-conditions": rewrite_conditions}
EXTRA = {}
