"""Applies a `git diff` patch to sources in memory (no working tree is touched).  -> {relpath: new source} or None"""
import os
import re

_HUNK = re.compile(r"^@@ -(\d+)(?:,(\d+))? \+(\d+)(?:,(\d+))? @@")


def apply_patch(repo_root, patch_text):
    files = {}
    cur = None
    hunks = None
    for line in patch_text.splitlines():
        if line.startswith("diff --git "):
            cur = None
        elif line.startswith("+++ "):
            path = line[4:].strip()
            if path.startswith("b/"):
                path = path[2:]
            cur = path
            hunks = files.setdefault(cur, [])
        elif line.startswith("--- ") or line.startswith("index ") or line.startswith("new file") or line.startswith("deleted file"):
            continue
        elif cur is not None:
            m = _HUNK.match(line)
            if m:
                hunks.append([int(m.group(1)), []])
            elif hunks and (line[:1] in " +-" or line == ""):
                hunks[-1][1].append(line if line else " ")
            elif line.startswith("\\"):
                continue
    out = {}
    for rel, hs in files.items():
        p = os.path.join(repo_root, rel)
        if not os.path.isfile(p):
            return None
        with open(p, encoding="utf-8") as fh:
            src = fh.read().split("\n")
        offset = 0
        for start, body in hs:
            old = [l[1:] for l in body if l[:1] in " -"]
            new = [l[1:] for l in body if l[:1] in " +"]
            pos = start - 1 + offset
            # tolerate a small drift
            found = None
            for d in [0] + [x for k in range(1, 40) for x in (k, -k)]:
                q = pos + d
                if 0 <= q and src[q:q + len(old)] == old:
                    found = q
                    break
            if found is None:
                return None
            src[found:found + len(old)] = new
            offset += len(new) - len(old) + (found - pos)
        out[rel] = "\n".join(src)
    return out
