"""Mutant / equivalent-variant corpora (DESIGN.md section 6).  Variants live in memory or in a scratch
directory outside /repo and /verif; nothing is imported or executed - variants are only parsed and compiled."""
import os
import sys


def sanity():
    """setup-time sanity: the program model parses the repository and the engines load."""
    from ..model import Repo
    r = Repo(os.environ.get("VERIF_REPO", "/repo"))
    st = r.stats()
    print(f"sa: parsed {st['files']} files, {st['classes']} classes, {st['functions']} functions")
    if st["functions"] < 250:
        print("ANALYSIS-ERROR sanity: too few functions parsed")
        return 2
    return 0


def run_for(pid, repo_root):
    return {}
