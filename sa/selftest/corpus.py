"""Mutant / equivalent-variant corpora (DESIGN.md section 6).

Variants are built in memory (source override of one file) - nothing is written into /repo, nothing
is imported or executed; each variant is byte-compiled to make sure it is a valid program.

A mutant is a text substitution that must match exactly once in today's source; the check of every
property listed in `expect` must report at least one violation that is not a known finding.
An equivalent variant must leave the verdict of every listed property unchanged (no new violation,
no analysis error)."""
import importlib
import os
import sys
import json
from concurrent.futures import ProcessPoolExecutor

from ..model import Repo, AnalysisError
from ..report import Check, load_known

HERE = os.path.dirname(os.path.abspath(__file__))


def sanity():
    """setup-time sanity: the program model parses the repository and the engines load."""
    r = Repo(os.environ.get("VERIF_REPO", "/repo"))
    st = r.stats()
    print(f"sa: parsed {st['files']} files, {st['classes']} classes, {st['functions']} functions")
    if st["functions"] < 250:
        print("ANALYSIS-ERROR sanity: too few functions parsed")
        return 2
    return 0


def load_corpus():
    from . import mutants, equivalents
    return mutants.MUTANTS, equivalents.EQUIVALENTS


def verdict(pid, repo_root, overrides, use_reference=True):
    """-> ('ok'|'violation'|'error', detail).  use_reference=False switches the reference-form substitution off: the
    equivalent-variant corpora measure the robustness of the rules themselves, not of the safety net behind them."""
    mod = importlib.import_module(f"sa.rules.{pid.lower()}")
    try:
        repo = Repo(repo_root, overrides=overrides, use_reference=use_reference)
        chk = Check(pid, repo, "quick")
        err = None
        try:
            mod.run(chk)
            from .. import shared
            shared.run_shared(pid, chk, repo, mod)
        except AnalysisError as e:
            err = str(e)[:200]
        known = load_known(pid)
        bad = [o for o in chk.obligations if not o["ok"] and o["key"] not in known]
        if bad:
            return "violation", [o["key"] for o in bad][:6]
        if err:
            return "error", err
        if len(chk.obligations) < mod.FLOOR:
            return "error", f"floor {mod.FLOOR} not met ({len(chk.obligations)})"
        return "ok", None
    except AnalysisError as e:
        return "error", str(e)[:200]
    except Exception as e:  # checker crash counts as error
        return "error", f"crash {type(e).__name__}: {e}"[:200]


def apply_subst(repo_root, relpath, old, new, count=1, anchor=None):
    path = os.path.join(repo_root, relpath)
    with open(path, encoding="utf-8") as fh:
        src = fh.read()
    if anchor is not None:
        if src.count(anchor) != 1:
            return None, f"anchor occurs {src.count(anchor)} times, expected 1"
        start = src.index(anchor)
        pos = src.find(old, start)
        if pos < 0:
            return None, "pattern not found after anchor"
        out = src[:pos] + new + src[pos + len(old):]
    else:
        n = src.count(old)
        if n != count:
            return None, f"pattern occurs {n} times, expected {count}"
        out = src.replace(old, new)
    try:
        compile(out, relpath, "exec")
    except SyntaxError as e:
        return None, f"variant does not compile: {e}"
    return out, None


def _run_variant(args):
    kind, vid, pids, repo_root, relpath, old, new, count, anchor = args
    src, err = apply_subst(repo_root, relpath, old, new, count, anchor)
    if src is None:
        return kind, vid, "stale", err, {}
    res = {}
    for pid in pids:
        res[pid] = verdict(pid, repo_root, {relpath: src}, use_reference=(kind == "mutant"))
    return kind, vid, "run", None, res


def run_for(pid, repo_root, jobs=None):
    """thorough tier: run the property's slice of the corpora; returns evidence keys."""
    muts, eqs = load_corpus()
    tasks = []
    for m in muts:
        if pid in m["expect"]:
            tasks.append(("mutant", m["id"], [pid], repo_root, m["file"], m["old"], m["new"], m.get("count", 1), m.get("anchor")))
    for e in eqs:
        if pid in e["props"] or "*" in e["props"]:
            tasks.append(("equiv", e["id"], [pid], repo_root, e["file"], e["old"], e["new"], e.get("count", 1), e.get("anchor")))
    failures = []
    stale = []
    caught = 0
    silent = 0
    samples = []
    # whole-repository behaviour-preserving transformations (layout round trip, renaming of all locals)
    from . import transforms
    for tname, tf in transforms.WHOLE_REPO.items():
        v, det = verdict(pid, repo_root, tf(repo_root), use_reference=False)
        if v == "ok":
            silent += 1
        else:
            failures.append(f"whole-repo equivalent variant {tname} changed the verdict of {pid}: {v} {det}")
    jobs = jobs or min(16, os.cpu_count() or 4)
    if tasks:
        with ProcessPoolExecutor(max_workers=jobs) as ex:
            results = list(ex.map(_run_variant, tasks))
    else:
        results = []
    for kind, vid, state, err, res in results:
        if state == "stale":
            stale.append(f"{kind} {vid}: {err}")
            continue
        v, det = res[pid]
        if kind == "mutant":
            if v == "violation":
                caught += 1
                if len(samples) < 6:
                    samples.append({"mutant": vid, "reported": det})
            else:
                failures.append(f"mutant {vid} not reported by {pid}: {v} {det}")
        else:
            if v == "ok":
                silent += 1
            else:
                failures.append(f"equivalent variant {vid} changed the verdict of {pid}: {v} {det}")
    out = {"selftest_mutants_caught": caught, "selftest_equivalents_silent": silent,
           "selftest_stale": stale, "selftest_failures": failures, "selftest_samples": samples,
           "selftest_variants": len(tasks) + len(transforms.WHOLE_REPO)}
    # further whole-repository rewrites (guard-clause nesting both ways, split guards, keyword order, hoisted arguments)
    extra = {}
    for tname, tf in transforms.EXTRA.items():
        try:
            v, det = verdict(pid, repo_root, tf(repo_root), use_reference=False)
        except Exception as e:      # noqa: BLE001
            v, det = "error", str(e)[:100]
        extra[tname] = v if v == "ok" else f"{v}: {det}"
        if v != "ok" and tname in transforms.GATED:
            failures.append(f"whole-repo equivalent variant {tname} changed the verdict of {pid}: {v} {det}")
    out["whole_repo_rewrites"] = extra
    out.update(independent_corpora(pid, repo_root, jobs))
    return out


def _independent(args):
    corpus, cid, pid, repo_root = args
    from .patchapply import apply_patch
    base = os.path.join(os.path.dirname(os.path.dirname(HERE)), corpus, cid)
    with open(os.path.join(base, "patch.diff"), encoding="utf-8") as fh:
        ov = apply_patch(repo_root, fh.read())
    if ov is None:
        return corpus, cid, "stale", "patch no longer applies"
    v, det = verdict(pid, repo_root, ov)
    return corpus, cid, v, det


def independent_corpora(pid, repo_root, jobs=None):
    """measurements (never verdicts) on the two independently produced corpora kept under /verif: the seeded regressions of
    this property (should be reported) and the behaviour-preserving refactorings anchored in it (should stay silent)"""
    root = os.path.dirname(os.path.dirname(HERE))
    tasks = []
    for corpus in ("seeded", "benign"):
        d = os.path.join(root, corpus)
        if not os.path.isdir(d):
            continue
        for cid in sorted(os.listdir(d)):
            mp = os.path.join(d, cid, "meta.json")
            if os.path.isfile(mp):
                try:
                    prop = json.load(open(mp)).get("property")
                except Exception:     # noqa: BLE001
                    continue
                if prop == pid:
                    tasks.append((corpus, cid, pid, repo_root))
    if not tasks:
        return {}
    with ProcessPoolExecutor(max_workers=jobs or min(16, os.cpu_count() or 4)) as ex:
        res = list(ex.map(_independent, tasks))
    seeds = [(c, v, d) for k, c, v, d in res if k == "seeded"]
    ben = [(c, v, d) for k, c, v, d in res if k == "benign"]
    return {"seeded_regressions": {"total": len(seeds), "reported": sum(1 for c, v, d in seeds if v == "violation"),
                                   "not_reported": {c: f"{v}: {d}" for c, v, d in seeds if v != "violation"}},
            "benign_refactorings": {"total": len(ben), "silent": sum(1 for c, v, d in ben if v == "ok"),
                                    "false_alarm": {c: d for c, v, d in ben if v == "violation"},
                                    "unrecognised_form": {c: d for c, v, d in ben if v == "error"}}}


def main(argv):
    """python -m sa.selftest.corpus [pid ...] : run the corpora and print a table"""
    repo_root = os.environ.get("VERIF_REPO", "/repo")
    muts, eqs = load_corpus()
    pids = argv or sorted({p for m in muts for p in m["expect"]})
    tasks = []
    for m in muts:
        ps = [p for p in m["expect"] if p in pids]
        if ps:
            tasks.append(("mutant", m["id"], ps, repo_root, m["file"], m["old"], m["new"], m.get("count", 1), m.get("anchor")))
    for e in eqs:
        ps = pids if "*" in e["props"] else [p for p in e["props"] if p in pids]
        if ps:
            tasks.append(("equiv", e["id"], ps, repo_root, e["file"], e["old"], e["new"], e.get("count", 1), e.get("anchor")))
    with ProcessPoolExecutor(max_workers=min(16, os.cpu_count() or 4)) as ex:
        results = list(ex.map(_run_variant, tasks))
    bad = 0
    for kind, vid, state, err, res in results:
        if state == "stale":
            print(f"STALE   {kind:6s} {vid}: {err}")
            bad += 1
            continue
        for pid, (v, det) in res.items():
            good = (v == "violation") if kind == "mutant" else (v == "ok")
            if not good:
                bad += 1
            print(f"{'ok  ' if good else 'FAIL'}    {kind:6s} {vid:44s} {pid} -> {v} {det if (not good or kind == 'mutant') else ''}"[:230])
    print(f"{len(results)} variants, {bad} problems")
    return 1 if bad else 0


if __name__ == "__main__":
    sys.exit(main(sys.argv[1:]))
