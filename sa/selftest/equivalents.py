"""Behaviour-preserving variants: the verdict of every listed property must not change."""
from .mutants import F, M, R, OP, H5, OVF, VTK, IO, T, U, ROT, MPL, PU, LN


def e(id, props, file, old, new, anchor=None, count=1):
    d = {"id": id, "props": props, "file": file, "old": old, "new": new, "count": count}
    if anchor:
        d["anchor"] = anchor
    return d


EQUIVALENTS = [
    e("eq-dot-and-operator", ["C08", "C03"], F, "valid = np.logical_and(valid, other.valid)", "valid = np.logical_and(other.valid, valid)", anchor="def dot(self, other):"),
    e("eq-neg-temp", ["C08", "C03"], F, "        return self.__class__(\n            self.mesh,\n            nvdim=self.nvdim,\n            value=-self.array,",
      "        negated = np.negative(self.array)\n        return self.__class__(\n            self.mesh,\n            nvdim=self.nvdim,\n            value=negated,"),
    e("eq-neg-kw-order", ["C08", "C03"], F, "            value=-self.array,\n            vdims=self.vdims,\n            valid=self.valid,", "            valid=self.valid,\n            value=-self.array,\n            vdims=self.vdims,"),
    e("eq-rsub-reorder", ["C03"], F, "return -self + other", "return other + (-self)"),
    e("eq-translate-plus", ["C13"], R, "            pmin = np.add(self.pmin, vector)", "            pmin = self.pmin + np.asarray(vector)"),
    e("eq-scale-formula", ["C13"], R, "pmin = reference_point - (reference_point - self.pmin) * factor", "pmin = reference_point + factor * (self.pmin - reference_point)"),
    e("eq-rot-theta-temp", ["C12", "C13"], R, "        p1_rot = np.dot(rot_matrix, p1_inplane)", "        rotation = rot_matrix\n        p1_rot = np.dot(rotation, p1_inplane)"),
    e("eq-field-theta", ["C12", "C08"], F, "theta = k * np.pi / 2", "theta = np.pi * k * 0.5"),
    e("eq-units-ne", ["C12", "C13"], R, "        if k % 2 == 1:\n            units[idx1], units[idx2] = units[idx2], units[idx1]", "        if not k % 2 != 1:\n            units[idx1], units[idx2] = units[idx2], units[idx1]"),
    e("eq-check-not-eq", ["C03"], F, "if not self.mesh.allclose(other.mesh):", "if self.mesh.allclose(other.mesh) is False or not self.mesh.allclose(other.mesh):"),
]

EQUIVALENTS += [
    e("eq-index2point-form", ["C01", "C07"], M, "point = self.region.pmin + np.add(index, 0.5) * self.cell", "point = np.asarray(index) * self.cell + self.cell / 2 + self.region.pmin"),
    e("eq-point2index-temp", ["C01", "C07"], M, "index = np.floor((point - self.region.pmin) / self.cell).astype(int)", "rel = np.subtract(point, self.region.pmin)\n        index = np.floor(rel / self.cell).astype(int)"),
    e("eq-cells-rename", ["C01"], M, "np.linspace(pmin + cell / 2, pmax - cell / 2, n)\n                for pmin, pmax, cell, n in zip(", "np.linspace(lo + 0.5 * dx, hi - 0.5 * dx, cnt)\n                for lo, hi, dx, cnt in zip("),
]

EQUIVALENTS += [
    e("eq-integrate-zero-term", ["C06"], F, "return sum_ * self.mesh.dV", "return sum_ * self.mesh.dV + 0 * self.mesh.region.pmin[0]"),
    e("eq-integrate-order", ["C06"], F, "res_array = np.sum(self.array, axis=axis) * self.mesh.cell[axis]", "dx = self.mesh.cell[axis]\n            res_array = dx * np.sum(self.array, axis=axis)"),
    e("eq-diff-kernel-var", ["C04"], OP, 'derivative_array = np.convolve(array, [1, -2, 1], "same")', 'kernel = [1, -2, 1]\n        derivative_array = np.convolve(array, kernel, "same")'),
    e("eq-stencil-reorder", ["C04"], OP, "derivative_array[0] = 2 * array[0] - 5 * array[1] + 4 * array[2] - array[3]", "derivative_array[0] = 4 * array[2] - array[3] + 2 * array[0] - 5 * array[1]"),
    e("eq-curl-temp", ["C05"], F, "return curl_x << curl_y << curl_z", "first_two = curl_x << curl_y\n        return first_two << curl_z"),
]

EQUIVALENTS += [
    e("eq-sel-astype-copies", ["C13", "C07", "C14"], M, "sub_p_1 = subreg.pmin.copy().astype(", "sub_p_1 = subreg.pmin.astype("),
]

# D8 of C03: conditions decided up to order types / normal form
EQUIVALENTS += [
    e("eq-c03-switch-lt", ["C03"], F, "if self.nvdim == 1 and other.nvdim > 1:", "if self.nvdim < other.nvdim:"),
    e("eq-c03-switch-ne", ["C03"], F, "if self.nvdim == 1 and other.nvdim > 1:", "if other.nvdim != 1 and self.nvdim == 1:"),
    e("eq-c03-cross-one-sided", ["C03"], F, "if self.nvdim != 3 or other.nvdim != 3:", "if self.nvdim != 3:"),
    e("eq-c03-cross-and", ["C03"], F, "if self.nvdim != 3 or other.nvdim != 3:", "if not (self.nvdim == 3 and other.nvdim == 3):"),
    e("eq-c03-shape-guard-demorgan", ["C03"], F,
      "            if not (\n                self.array.shape == np.shape(other)\n                or self.nvdim == len(other)\n                or self.nvdim == 1\n            ):",
      "            if (\n                self.array.shape != np.shape(other)\n                and len(other) != self.nvdim\n                and self.nvdim != 1\n            ):"),
    e("eq-c03-lshift-none-order", ["C03"], F, "if self.vdims is None or other.vdims is None:", "if other.vdims is None or self.vdims is None:"),
    e("eq-c03-allclose-atol-temp", ["C03"], R, "                atol = np.min(self.edges) * self.tolerance_factor", "                smallest = np.min(self.edges)\n                atol = self.tolerance_factor * smallest"),
    e("eq-c03-ufunc-at-swap", ["C03"], F, '        elif method == "at":', '        elif "at" == method:'),
]

# round 2: condition rules must accept equivalent spellings
EQUIVALENTS += [
    e("eq-h5-subregions-truthy", ["C10", "C14"], H5, "if len(self.subregions) > 0:", "if self.subregions:"),
    e("eq-h5-subregions-ne0", ["C10", "C14"], H5, "if len(self.subregions) > 0:", "if len(self.subregions) != 0:"),
    e("eq-ovf-mode-flipped", ["C09"], OVF, '            if mode == "binary":\n                # OVF2 uses', '            if not mode != "binary":\n                # OVF2 uses'),
    e("eq-vdims-setter-demorgan", ["C05"], F, "if len(self.vdim_mapping) > 0 and vdims is not None and old_vdims is not None:",
      "if not (len(self.vdim_mapping) == 0 or vdims is None or old_vdims is None):"),
    e("eq-mapping-setter-ge1", ["C05"], F, "elif len(vdim_mapping) > 0 and sorted(vdim_mapping) != sorted(self.vdims):",
      "elif len(vdim_mapping) >= 1 and not sorted(vdim_mapping) == sorted(self.vdims):"),
    e("eq-valid-setter-flipped", ["C08"], F, "        if valid is not None:\n            if isinstance(valid, str) and valid == \"norm\":\n                valid = ~np.isclose(self.norm.array, 0)\n        else:\n            valid = True",
      "        if valid is None:\n            valid = True\n        elif isinstance(valid, str) and valid == \"norm\":\n            valid = ~np.isclose(self.norm.array, 0)"),
    e("eq-region-rotate-ref-flipped", ["C12", "C13"], R, "        if reference_point is None:\n            reference_point = self.centre\n        elif not isinstance(reference_point, (tuple, list, np.ndarray)):",
      "        if reference_point is None:\n            reference_point = self.center\n        elif not isinstance(reference_point, (list, tuple, np.ndarray)):"),
    e("eq-translate-vector-len", ["C13"], R, "        elif len(vector) != self.ndim:\n            raise ValueError(\n                f\"Wrong length for array-like argument: {len(vector)}; expected length\"",
      "        elif not len(vector) == self.ndim:\n            raise ValueError(\n                f\"Wrong length for array-like argument: {len(vector)}; expected length\""),
    e("eq-fftn-labels-flipped", ["C11"], F, "            if ifftn:\n                new_vdims = [\n                    vdim[3:] if vdim.startswith(\"ft_\") else vdim for vdim in self.vdims\n                ]\n            else:\n                new_vdims = [f\"ft_{vdim}\" for vdim in self.vdims]",
      "            if not ifftn:\n                new_vdims = [f\"ft_{vdim}\" for vdim in self.vdims]\n            else:\n                new_vdims = [\n                    vdim[3:] if vdim.startswith(\"ft_\") else vdim for vdim in self.vdims\n                ]"),
    e("eq-tcd-method-flipped", ["C19"], T, '    elif method == "berg-luescher":\n        q = df.Field(field.mesh, nvdim=1, valid=of.valid)', '    elif not method != "berg-luescher":\n        q = df.Field(field.mesh, nvdim=1, valid=of.valid)'),
    e("eq-c16-legacy-vectors-flipped", ["C16"], VTK, '        if "VECTORS" in content:\n            dim = 3\n            data_marker = "VECTORS"\n            skip = 0  # after how many lines data starts after marker\n        else:\n            dim = 1\n            data_marker = "SCALARS"\n            skip = 1',
      '        if "VECTORS" not in content:\n            dim = 1\n            data_marker = "SCALARS"\n            skip = 1\n        else:\n            dim = 3\n            data_marker = "VECTORS"\n            skip = 0'),
    e("eq-c17-name-guard", ["C17"], F, "        if not isinstance(name, str):\n            msg = \"Name argument must be a string.\"", "        if isinstance(name, str) is False or not isinstance(name, str):\n            msg = \"Name argument must be a string.\""),
    e("eq-c20-filter-default-flipped", ["C20"], MPL, "        if filter_field is None:\n            filter_field = self.field._valid_as_field\n\n        self._filter_values(filter_field, values)\n\n        if symmetric_clim",
      "        if not filter_field is not None:\n            filter_field = self.field._valid_as_field\n\n        self._filter_values(filter_field, values)\n\n        if symmetric_clim"),
]
