"""E7 - term extraction and canonical rational-polynomial normal form.

Every Python expression is mapped to a rational function over *atoms*.  Atoms are
uninterpreted heads applied to argument terms and are interned modulo congruence (two
atoms with the same head and pairwise-equal arguments are one atom), so equality of
terms is decided by cross-multiplication of polynomials over atom ids.  No paths are
enumerated and no solver is involved: this is value numbering plus polynomial algebra.
"""
import ast
import os
from fractions import Fraction

from .model import AnalysisError, body_nodoc, CLASS_OF
from .cfg import CFG

ONE = ((), )  # placeholder (unused)


# ----------------------------------------------------------------------------- polynomials
def p_const(c):
    c = Fraction(c)
    return {(): c} if c != 0 else {}


def p_add(a, b):
    out = dict(a)
    for m, c in b.items():
        v = out.get(m, 0) + c
        if v == 0:
            out.pop(m, None)
        else:
            out[m] = v
    return out


def p_neg(a):
    return {m: -c for m, c in a.items()}


def m_mul(m1, m2):
    d = dict(m1)
    for a, e in m2:
        d[a] = d.get(a, 0) + e
    return tuple(sorted((a, e) for a, e in d.items() if e != 0))


def p_mul(a, b):
    out = {}
    for m1, c1 in a.items():
        for m2, c2 in b.items():
            m = m_mul(m1, m2)
            v = out.get(m, 0) + c1 * c2
            if v == 0:
                out.pop(m, None)
            else:
                out[m] = v
    return out


def p_eq(a, b):
    return a == b


class Rat:
    """num/den, polynomials over atom ids with Fraction coefficients (Laurent monomials)."""
    __slots__ = ("num", "den")

    def __init__(self, num, den=None):
        if den is None:
            den = {(): Fraction(1)}
        if not den:
            raise AnalysisError("term: division by the zero polynomial")
        # fold a single-monomial denominator into the numerator
        if len(den) == 1:
            (m, c), = den.items()
            inv = tuple((a, -e) for a, e in m)
            num = p_mul(num, {inv: 1 / c})
            den = {(): Fraction(1)}
        self.num = num
        self.den = den

    def key(self):
        return (tuple(sorted(self.num.items())), tuple(sorted(self.den.items())))

    def is_const(self):
        return len(self.den) == 1 and () in self.den and all(m == () for m in self.num)

    def const(self):
        if not self.is_const():
            return None
        return self.num.get((), Fraction(0)) / self.den[()]

    def single_atom(self):
        """atom id if the term is exactly one atom, else None"""
        if len(self.den) == 1 and () in self.den and self.den[()] == 1 and len(self.num) == 1:
            (m, c), = self.num.items()
            if c == 1 and len(m) == 1 and m[0][1] == 1:
                return m[0][0]
        return None

    def atom_ids(self):
        s = set()
        for p in (self.num, self.den):
            for m in p:
                for a, _ in m:
                    s.add(a)
        return s


def r_add(a, b):
    if a.den == b.den:
        return Rat(p_add(a.num, b.num), a.den)
    return Rat(p_add(p_mul(a.num, b.den), p_mul(b.num, a.den)), p_mul(a.den, b.den))


def r_neg(a):
    return Rat(p_neg(a.num), a.den)


def r_sub(a, b):
    return r_add(a, r_neg(b))


def r_mul(a, b):
    return Rat(p_mul(a.num, b.num), p_mul(a.den, b.den))


def r_div(a, b):
    if not b.num:
        raise AnalysisError("term: division by literal zero")
    return Rat(p_mul(a.num, b.den), p_mul(a.den, b.num))


def r_pow(a, k):
    if k == 0:
        return Rat(p_const(1))
    if k < 0:
        return r_div(Rat(p_const(1)), r_pow(a, -k))
    out = Rat(p_const(1))
    for _ in range(k):
        out = r_mul(out, a)
    return out


# ----------------------------------------------------------------------------- context
class Ctx:
    """Atom table with congruence-aware interning."""

    def __init__(self):
        self.atoms = []        # id -> (head, args tuple of Rat)
        self.by_head = {}      # head -> [ids]
        self.types = {}        # atom id -> class qual

    def eq(self, a, b):
        if a is b:
            return True
        if a.den == b.den:
            return a.num == b.num
        return p_mul(a.num, b.den) == p_mul(b.num, a.den)

    def atom(self, head, args=(), typ=None):
        args = tuple(args)
        for i in self.by_head.get(head, ()):
            oa = self.atoms[i][1]
            if len(oa) == len(args) and all(self.eq(x, y) for x, y in zip(oa, args)):
                if typ and i not in self.types:
                    self.types[i] = typ
                return i
        i = len(self.atoms)
        self.atoms.append((head, args))
        self.by_head.setdefault(head, []).append(i)
        if typ:
            self.types[i] = typ
        return i

    def mk(self, head, args=(), typ=None):
        if head[0] == "unpack" and len(head) == 2 and isinstance(head[1], int) and not isinstance(head[1], bool) and len(args) == 1:
            # element k of a tuple assignment `a, b = X` is X[k]: one form for both spellings
            head, args = ("sub",), (args[0], self.const(head[1]))
        if head == ("gphi",) and len(args) > 2:
            # alternatives are a set: kept in one order whatever order they are handed in (terms rebuilt by substitution)
            pairs = sorted(zip(args[0::2], args[1::2]), key=lambda gt: (gt[1].key(), gt[0].key()))
            args = [x for gt in pairs for x in gt]
        elif head in (("and",), ("or",)) and len(args) > 1:
            args = sorted(args, key=lambda x: x.key())
        elif head[0] == "cmp" and head[1] in ("eq", "ne", "is", "isnot") and len(args) == 2 and args[0].key() > args[1].key():
            args = (args[1], args[0])
        return self.var(self.atom(head, args, typ))

    def var(self, aid):
        return Rat({((aid, 1),): Fraction(1)})

    def const(self, c):
        return Rat(p_const(c))

    def type_of(self, r):
        a = r.single_atom()
        return self.types.get(a) if a is not None else None

    def head_of(self, r):
        a = r.single_atom()
        return self.atoms[a][0] if a is not None else None

    def args_of(self, r):
        a = r.single_atom()
        return self.atoms[a][1] if a is not None else None

    # ---------------------------------------------------------------- traversal
    def all_atoms(self, r, seen=None):
        """all atom ids occurring in r, transitively through atom arguments"""
        if seen is None:
            seen = set()
        for a in r.atom_ids():
            if a not in seen:
                seen.add(a)
                for x in self.atoms[a][1]:
                    self.all_atoms(x, seen)
        return seen

    def heads_in(self, r):
        return {self.atoms[a][0] for a in self.all_atoms(r)}

    def find_atoms(self, r, pred):
        return [a for a in sorted(self.all_atoms(r)) if pred(self.atoms[a][0], self.atoms[a][1])]

    def mentions(self, r, other):
        """does `other` (single atom term) occur anywhere inside r"""
        a = other.single_atom()
        if a is None:
            raise AnalysisError("mentions(): needle is not a single atom")
        return a in self.all_atoms(r)

    def mentions_or_eq(self, r, other):
        return self.eq(r, other) or self.mentions(r, other)

    def subst(self, r, mapping):
        """replace atoms (by id) with terms; rebuilds atoms whose arguments change"""
        cache = {}

        def sub_atom(a):
            if a in cache:
                return cache[a]
            if a in mapping:
                cache[a] = mapping[a]
                return mapping[a]
            head, args = self.atoms[a]
            nargs = [sub_rat(x) for x in args]
            if all(x is y for x, y in zip(nargs, args)):
                res = self.var(a)
            else:
                res = self.mk(head, nargs, self.types.get(a))
            cache[a] = res
            return res

        def sub_poly(p):
            total = Rat({})
            for m, c in p.items():
                t = Rat(p_const(c))
                for a, e in m:
                    t = r_mul(t, r_pow(sub_atom(a), e))
                total = r_add(total, t)
            return total

        def sub_rat(x):
            ids = x.atom_ids()
            if not ids:
                return x
            changed = False
            for a in ids:
                s = sub_atom(a)
                if s.single_atom() != a:
                    changed = True
            if not changed:
                return x
            return r_div(sub_poly(x.num), sub_poly(x.den))
        return sub_rat(r)

    # ---------------------------------------------------------------- printing
    def show(self, r, depth=0):
        if depth > 12:
            return "..."

        def show_poly(p):
            if not p:
                return "0"
            parts = []
            for m, c in sorted(p.items(), key=lambda kv: (len(kv[0]), str(kv[0]))):
                fs = []
                for a, e in m:
                    s = self.show_atom(a, depth + 1)
                    if e != 1:
                        s = f"{s}^{e}"
                    fs.append(s)
                if c == 1 and fs:
                    parts.append("*".join(fs))
                elif c == -1 and fs:
                    parts.append("-" + "*".join(fs))
                else:
                    cs = str(c)
                    parts.append("*".join([cs] + fs))
            return " + ".join(parts).replace("+ -", "- ")
        n = show_poly(r.num)
        if len(r.den) == 1 and r.den.get(()) == 1:
            return n
        return f"({n})/({show_poly(r.den)})"

    def show_atom(self, a, depth=0):
        head, args = self.atoms[a]
        k = head[0]
        sa = [self.show(x, depth + 1) for x in args]
        if k == "sym":
            return head[1]
        if k == "str":
            return repr(head[1])
        if k == "const":
            return repr(head[1])
        if k in ("attr", "sub") and args and args[0].single_atom() is None and not args[0].is_const():
            sa[0] = f"({sa[0]})"
        if k == "attr":
            return f"{sa[0]}.{head[1]}"
        if k == "sub":
            return f"{sa[0]}[{sa[1]}]"
        if k == "call":
            kw = head[3] if len(head) > 3 else ()
            npos = len(sa) - len(kw)
            parts = sa[:npos] + [f"{n}={v}" for n, v in zip(kw, sa[npos:])]
            return f"{head[1]}({', '.join(parts)})"
        if k == "tuple":
            return "(" + ", ".join(sa) + ("," if len(sa) == 1 else "") + ")"
        if k == "list":
            return "[" + ", ".join(sa) + "]"
        if k == "slice":
            return ":".join(sa)
        if k == "phi":
            return "phi(" + " | ".join(sa) + ")"
        if k == "gphi":
            return "gphi(" + " | ".join(f"{sa[i]} -> {sa[i + 1]}" for i in range(0, len(sa), 2)) + ")"
        if k == "iter":
            return f"each{list(head[1]) if head[1] else ''}({sa[0]})"
        if k == "new":
            kw = head[2]
            npos = len(sa) - len(kw)
            parts = sa[:npos] + [f"{n}={v}" for n, v in zip(kw, sa[npos:])]
            return f"new {head[1]}({', '.join(parts)})"
        return f"{'/'.join(str(h) for h in head)}({', '.join(sa)})"


# ----------------------------------------------------------------------------- API tables
ARITH_FUNCS = {"np.add": "+", "np.subtract": "-", "np.multiply": "*", "np.divide": "/",
               "np.true_divide": "/", "np.negative": "neg", "np.positive": "pos"}
CMP_FUNCS = {"np.less": "lt", "np.less_equal": "le", "np.greater": "gt", "np.greater_equal": "ge",
             "np.equal": "eq", "np.not_equal": "ne"}
BOOL_FUNCS = {"np.logical_and": "and", "np.logical_or": "or", "np.bitwise_and": "and", "np.bitwise_or": "or"}
NOT_FUNCS = {"np.invert", "np.logical_not", "np.bitwise_not"}
# value-transparent wrappers: f(x) == x as far as element values are concerned
TRANSPARENT_FUNCS = {"np.asarray", "np.array", "np.asanyarray", "tuple", "list", "np.ascontiguousarray"}
TRANSPARENT_METHODS = {"copy", "tolist", "item"}
FLOAT_NAMES = {"float", "'float'", "np.float64", "np.float_", "np.double"}

# properties whose getter is expanded one level when the receiver's class is known
EXPAND_PROPS = {
    "region.Region": {"pmin", "pmax", "dims", "units", "tolerance_factor", "ndim", "edges", "center", "centre"},
    "mesh.Mesh": {"region", "n", "bc", "subregions", "cell", "dV"},
    "field.Field": {"mesh", "nvdim", "unit", "vdims", "array", "valid", "vdim_mapping"},
    "field_rotator.FieldRotator": {"field"},
}
SLOT_TYPES = {("mesh.Mesh", "_region"): "region.Region", ("field.Field", "_mesh"): "mesh.Mesh",
              ("field_rotator.FieldRotator", "_orig_field"): "field.Field",
              ("field_rotator.FieldRotator", "_rotated_field"): "field.Field",
              ("plotting.mpl_field.MplField", "field"): "field.Field"}
METHOD_RET = {
    ("mesh.Mesh", "sel"): "mesh.Mesh", ("mesh.Mesh", "pad"): "mesh.Mesh", ("mesh.Mesh", "fftn"): "mesh.Mesh",
    ("mesh.Mesh", "ifftn"): "mesh.Mesh", ("mesh.Mesh", "rotate90"): "mesh.Mesh", ("mesh.Mesh", "scale"): "mesh.Mesh",
    ("mesh.Mesh", "translate"): "mesh.Mesh", ("mesh.Mesh", "__getitem__"): "mesh.Mesh",
    ("region.Region", "scale"): "region.Region", ("region.Region", "translate"): "region.Region",
    ("region.Region", "rotate90"): "region.Region",
    ("field.Field", "pad"): "field.Field", ("field.Field", "diff"): "field.Field", ("field.Field", "sel"): "field.Field",
    ("field.Field", "resample"): "field.Field", ("field.Field", "dot"): "field.Field", ("field.Field", "cross"): "field.Field",
    ("field.Field", "fftn"): "field.Field", ("field.Field", "ifftn"): "field.Field",
}
PROP_RET = {("field.Field", "norm"): "field.Field", ("field.Field", "orientation"): "field.Field",
            ("field.Field", "_valid_as_field"): "field.Field", ("field.Field", "real"): "field.Field",
            ("field.Field", "imag"): "field.Field"}


class Evaluator:
    """Maps expressions of one function to terms."""

    def __init__(self, repo, func, ctx=None, self_type=None, param_types=None, expand=True,
                 parent=None, parent_at=None, bound=None):
        self.repo = repo
        self.func = func
        self.ctx = ctx or Ctx()
        self.cfg = CFG(func.node)
        self.self_type = self_type if self_type is not None else (func.cls.qual if func.cls else None)
        self.param_types = dict(param_types or {})
        self.expand = expand
        self.parent = parent
        self.parent_at = parent_at
        self._cache = {}
        self._stack = []
        self._foreign = []
        self._cutcount = [0]
        self._pinned = []
        self.bound = dict(bound or {})   # name -> Rat   (comprehension / lambda / spec bindings)
        self._params = set(func.params)
        self._local_names = self._collect_locals()
        self._nested = {}
        self._cur_at = None
        self.param_override = {}
        self.exact = False
        self.alias_mode = False
        self._spec_mode = False
        self._keep_seq = False      # inside a subscript: tuple(x) / list(x) select different numpy indexing modes
        self._open_gens = []        # loop bases of the comprehension generators being evaluated (shared by with_bound copies)

    # ------------------------------------------------------------ scope
    def _collect_locals(self):
        names = set()
        for n in self.cfg.nodes:
            for d in self.cfg.defs_of_node(n):
                names.add(d[0])
        return names

    def with_bound(self, extra):
        ev = Evaluator.__new__(Evaluator)
        ev.__dict__.update(self.__dict__)
        ev.bound = dict(self.bound)
        ev.bound.update(extra)
        ev._cache = {}
        return ev

    # ------------------------------------------------------------ entry points
    def term(self, expr, at=None, via=None):
        """term of expression `expr` evaluated at CFG node `at` (a Node or a statement)."""
        if isinstance(at, ast.AST):
            at = self.cfg.node(at)
        restrict = None
        if via:
            vn = [self.cfg.node(v) if isinstance(v, ast.AST) else v for v in via]
            restrict = frozenset(self.cfg.via_restriction(vn))
        return self._t(expr, at, restrict)

    def spec(self, text, env=None, at=None):
        """term of a specification expression written in the repo's vocabulary."""
        try:
            from .model import _CanonicalBranches
            node = _CanonicalBranches().visit(ast.parse(text, mode="eval")).body
        except SyntaxError as e:
            raise AnalysisError(f"bad spec expression {text!r}: {e}")
        ev = self.with_bound(env or {})
        ev._spec_mode = True
        return ev._t(node, self.cfg.node(at) if isinstance(at, ast.AST) else at, None)

    # ------------------------------------------------------------ names
    def _sym(self, name, typ=None):
        return self.ctx.mk(("sym", name), (), typ)

    def _param(self, name):
        """the value a parameter has on entry: its symbol, or the argument it is bound to when the function is being
        inlined at a call site"""
        if name in self.param_override:
            return self.param_override[name]
        return self._sym(f"param:{name}", self.param_types.get(name))

    def _name(self, name, at, restrict):
        if name in self.bound:
            return self.bound[name]
        if name == "self" and name in self._params:
            if "self" in self.param_override:
                return self.param_override["self"]
            return self._sym("self", self.self_type)
        if name == "cls" and name in self._params:
            return self._sym("cls", self.self_type)
        if name in self._local_names or name in self._params:
            if at is None:
                if getattr(self, "_spec_mode", False) and name in self._params:
                    return self._param(name)
                defs = self._all_defs(name)
                if name in self._params and not defs:
                    return self._param(name)
                if len(defs) == 1 and name not in self._params:
                    return self._def_term(name, defs[0], restrict)
                raise AnalysisError(f"{self.func.qual}: name {name!r} needs a program point to be resolved")
            IN, _ = self.cfg.reaching(restrict)
            ds = IN.get(at.id, {}).get(name)
            FIN, _ = self.cfg.reaching(restrict, forward_only=True)
            fds = FIN.get(at.id, {}).get(name) or frozenset()
            terms = []
            param_reaches = name in self._params and self._param_reaches(name, at, restrict)
            if param_reaches:
                terms.append((-1, self._param(name)))
            elif self.exact and name not in self._params and ds and self._param_reaches(name, at, restrict):
                # exact mode: a path on which the local is not bound at all is an alternative of its own (NameError)
                terms.append((-1, self.ctx.mk(("unbound", name))))
            for d in sorted(ds or ()):
                if d not in fds:
                    # arrives only by going round a loop: loop-carried value, kept abstract (canonical cut)
                    terms.append((d, self.ctx.mk(("carried", d), ())))
                    continue
                terms.append((d, self._def_term(name, self.cfg.nodes[d], restrict)))
            if not terms:
                if name in self._params:
                    return self._param(name)
                # defined only later / in another branch: unbound here
                return self.ctx.mk(("unbound", name))
            uniq = []
            for d, t in terms:
                if not any(self.ctx.eq(t, u) for u in uniq):
                    uniq.append(t)
            if len(uniq) == 1:
                return uniq[0]
            types = {self.ctx.type_of(u) for u in uniq}
            typ = types.pop() if len(types) == 1 else None
            if self.exact:
                return self._gated_phi(name, terms, at, typ)
            return self.ctx.mk(("phi",), uniq, typ)
        # closure variable of an enclosing function
        if self.parent is not None and (name in self.parent._local_names or name in self.parent._params):
            return self.parent._name(name, self.parent_at, None)
        return self._global(name)

    _TRUTH_CALLS = {"isinstance", "issubclass", "callable", "hasattr", "all", "any", "bool", "np.all", "np.any", "np.array_equal",
                    "np.allclose", "np.isclose", ".any", ".all", ".startswith", ".endswith", ".isalpha", ".isdigit", ".allclose", ".is_integer"}

    def _is_truth_value(self, t):
        h = self.ctx.head_of(t)
        if not h:
            return False
        if h[0] in ("cmp", "not", "and", "or"):
            return True
        if h[0] == "const":
            return isinstance(h[1], bool)
        if h[0] == "call":
            return h[1] in self._TRUTH_CALLS
        if h[0] == "gphi":
            return all(self._is_truth_value(x) for x in self.ctx.args_of(t)[1::2])
        return False

    def _condition_nodes(self):
        """ids of the and/or/not nodes that make up the tests of if / while / conditional expressions / comprehension
        filters / asserts of this function: there a Boolean operator is a connective, elsewhere it selects a value"""
        if getattr(self, "_cond_ids", None) is None:
            ids = set()

            def mark(x):
                if isinstance(x, ast.BoolOp):
                    ids.add(id(x))
                    for v_ in x.values:
                        mark(v_)
                elif isinstance(x, ast.UnaryOp) and isinstance(x.op, ast.Not):
                    ids.add(id(x))
                    mark(x.operand)
            for n in ast.walk(self.func.node):
                if isinstance(n, (ast.If, ast.While, ast.IfExp, ast.Assert)):
                    mark(n.test)
                elif isinstance(n, ast.comprehension):
                    for i_ in n.ifs:
                        mark(i_)
            self._cond_ids = ids
        return self._cond_ids

    # ------------------------------------------------------------ exact mode: gated alternatives
    def _stmt_reach_term(self, stmt):
        """conjunction of every branch decision that all paths to `stmt` share (enclosing branches and survived guards)"""
        key = ("reach", id(stmt))
        if key in self._cache:
            return self._cache[key]
        parts = []
        for test, pol, syn in self.cfg.must_literals(stmt):
            owner = None
            for n in self.cfg.nodes:
                if n.kind == "test" and n.ast is test:
                    owner = n
                    break
            t = self._t(test, owner, None)
            parts.append(t if pol else self._not(t))
        if self.exact:
            parts += self._structural_reach(stmt)
        res = self._bool("and", parts) if parts else self.ctx.mk(("const", True))
        self._cache[key] = res
        return res

    _BUILT = {"dict": "dict", "dictcomp": "dict", "list": "list", "seqcomp": None, "tuple": "tuple", "set": "set",
              "setcomp": "set", "str": "str", "fstr": "str"}

    def _isinstance_known(self, x, types):
        """True / False when x is a literal or a freshly built container and `types` names builtin container types; else None"""
        c = self.ctx
        h = c.head_of(x)
        kind = None
        if h and h[0] in self._BUILT:
            kind = self._BUILT[h[0]]
        elif h and h[0] == "call" and h[1] in ("dict", "list", "tuple", "set", "str") and len(h) > 3 and not h[3]:
            kind = h[1]
        if kind is None:
            return None
        names = []
        for t_ in (c.args_of(types) if (c.head_of(types) or ("",))[0] == "tuple" else [types]):
            ht = c.head_of(t_)
            if not (ht and ht[0] == "sym" and ht[1] in ("dict", "list", "tuple", "set", "str", "int", "float", "bool", "complex")):
                return None
            names.append(ht[1])
        return kind in names

    def _isinstance_of(self, x, types):
        known = self._isinstance_known(x, types)
        if known is not None:
            return self.ctx.mk(("const", known))
        return self.ctx.mk(("call", "isinstance", 2, ()), (x, types))

    def _test_term(self, test):
        owner = None
        for n in self.cfg.nodes:
            if n.kind == "test" and n.ast is test:
                owner = n
                break
        return self._t(test, owner, None)

    def _leaves(self, st):
        """condition under which executing statement st (once reached) does not continue with the statement after it:
        return / raise / continue / break, possibly inside branches.  Loops and try statements that hide such exits are
        not looked into (their contribution is dropped: the result is then weaker, never wrong)."""
        c = self.ctx
        if isinstance(st, (ast.Return, ast.Raise, ast.Continue, ast.Break)):
            return c.mk(("const", True))
        if isinstance(st, ast.If):
            b, o = self._leaves_block(st.body), self._leaves_block(st.orelse)
            fb = (c.head_of(b) or ("",))[:2] == ("const", False)
            fo = (c.head_of(o) or ("",))[:2] == ("const", False)
            if fb and fo:
                return b
            t = self._test_term(st.test)
            alts = []
            if not fb:
                alts.append(self._bool("and", [t, b]))
            if not fo:
                alts.append(self._bool("and", [self._not(t), o]))
            return alts[0] if len(alts) == 1 else self._bool("or", alts)
        if isinstance(st, ast.With):
            return self._leaves_block(st.body)
        return c.mk(("const", False))

    def _leaves_block(self, stmts):
        c = self.ctx
        alts = []
        for s_ in stmts:
            l_ = self._leaves(s_)
            h = c.head_of(l_)
            if h and h[0] == "const" and h[1] is False:
                continue
            if h and h[0] == "const" and h[1] is True:
                return l_
            alts.append(l_)
        if not alts:
            return c.mk(("const", False))
        return alts[0] if len(alts) == 1 else self._bool("or", alts)

    def _structural_reach(self, stmt):
        """the exact reach condition of stmt as far as branches and guards decide it: at every nesting level the branch
        taken and `no earlier statement of the block left it` (a guard that sits inside a branch contributes
        `not (branch and guard)`, which the literals shared by all paths cannot express)"""
        parts = []
        cur = stmt
        while True:
            p = self.cfg.parent.get(id(cur))
            if p is None:
                break
            par, fld = p
            if par is None:
                block = body_nodoc(self.cfg.fn)
            elif isinstance(par, ast.ExceptHandler):
                block = par.body
            else:
                block = getattr(par, fld, None)
            if isinstance(block, list):
                for s_ in block:
                    if s_ is cur:
                        break
                    if isinstance(s_, ast.If) and not (len(s_.body) == 1 and not s_.orelse and
                                                       isinstance(s_.body[0], (ast.Return, ast.Raise, ast.Continue, ast.Break))):
                        # (a plain guard is one of the shared literals already)
                        l_ = self._leaves(s_)
                        h = self.ctx.head_of(l_)
                        if not (h and h[0] == "const" and h[1] is False):
                            parts.append(self._not(l_))
            if par is None:
                break
            cur = par
        return parts

    def _fwd_reach(self, a):
        key = ("fwd", a)
        if key in self._cache:
            return self._cache[key]
        seen = set()
        st = [a]
        while st:
            x = st.pop()
            for y in self.cfg.succ[x]:
                if (x, y) in self.cfg.back_edges or y in seen:
                    continue
                seen.add(y)
                st.append(y)
        self._cache[key] = seen
        return seen

    def _gated_phi(self, name, terms, at, typ):
        """gphi(g1, v1, g2, v2, ...): value v_i arrives when its definition was executed and no later definition on the way
        to `at` was (the parameter itself: when no definition was executed).  Alternatives with equal values are merged;
        the result does not depend on whether the code says `x = a; if c: x = b` or `if c: x = b else: x = a`."""
        c = self.ctx
        defs = [(d, t) for d, t in terms if d >= 0]
        execs = {}
        for d, t in defs:
            n = self.cfg.nodes[d]
            execs[d] = self._stmt_reach_term(n.stmt) if n.stmt is not None else c.mk(("gate-unknown", d), ())
        alts = []
        for d, t in terms:
            if d < 0:
                g = self._bool("and", [self._not(execs[m]) for m, _ in defs]) if defs else c.mk(("const", True))
            else:
                hd = c.head_of(t)
                if hd and hd[0] == "carried":
                    g = c.mk(("gate-carried", d), ())
                else:
                    killers = [m for m, _ in defs if m != d and m != at.id and m in self._fwd_reach(d) and at.id in self._fwd_reach(m)]
                    g = self._bool("and", [execs[d]] + [self._not(execs[m]) for m in killers])
            alts.append((g, t))
        if self.exact and getattr(at, "stmt", None) is not None:
            # the alternatives are only ever looked at where the name is used: whatever holds on every path to that statement
            # (its enclosing branches and survived guards) need not be repeated in the gates - `if c: x = [x]` inside a branch
            # B and the same two lines moved into a helper (where B is no longer visible) give one value
            try:
                facts = self._conjuncts(self._stmt_reach_term(at.stmt))
            except AnalysisError:
                facts = []
            if facts:
                alts = [(self._simplify_under(g, facts), t) for g, t in alts]
        return self._mk_gphi(alts, typ)

    def _conjuncts(self, t):
        h = self.ctx.head_of(t)
        if h and h[0] == "and":
            out = []
            for x in self.ctx.args_of(t):
                out += self._conjuncts(x)
            return out
        if h and h[0] == "const" and h[1] is True:
            return []
        return [t]

    def _simplify_under(self, g, facts, depth=0):
        """g with every sub-condition that is one of `facts` (or the negation of one) replaced by its truth value"""
        c = self.ctx
        if depth > 12:
            return g
        if any(c.eq(g, f) for f in facts):
            return c.mk(("const", True))
        ng = self._not(g)
        if any(c.eq(ng, f) for f in facts):
            return c.mk(("const", False))
        h = c.head_of(g)
        if h and h[0] in ("and", "or"):
            parts = [self._simplify_under(x, facts, depth + 1) for x in c.args_of(g)]
            return self._bool(h[0], parts)
        if h and h[0] == "not":
            return self._not(self._simplify_under(c.args_of(g)[0], facts, depth + 1))
        return g

    def _mk_gphi(self, alts, typ=None):
        c = self.ctx
        # an alternative that is itself a choice of alternatives is that choice under the conjoined gates:
        # g -> (h -> a | k -> b)  is  (g and h) -> a | (g and k) -> b
        flat_alts = []
        for g, t in alts:
            ht = c.head_of(t)
            if ht and ht[0] == "gphi":
                ar = c.args_of(t)
                flat_alts += [(self._bool("and", [g, ar[i]]), ar[i + 1]) for i in range(0, len(ar), 2)]
            else:
                flat_alts.append((g, t))
        alts = flat_alts
        merged = []
        for g, t in alts:
            hg = c.head_of(g)
            if hg and hg[0] == "const" and hg[1] is False:
                continue
            for i, (g2, t2) in enumerate(merged):
                if c.eq(t, t2):
                    merged[i] = (self._bool("or", [g2, g]), t2)
                    break
            else:
                merged.append((g, t))
        if len(merged) == 1:
            return merged[0][1]
        # conjuncts shared by every gate say where the value exists at all, not which alternative it is: dropped
        # (`x = a if c else b` and `if c: x = a else: x = b` under a guard are one value)
        def conj(g):
            hg = c.head_of(g)
            return list(c.args_of(g)) if hg and hg[0] == "and" else [g]
        sets = [conj(g) for g, _ in merged]
        common = [x for x in sets[0] if all(any(c.eq(x, y) for y in s_) for s_ in sets[1:])]
        if common:
            stripped = []
            for (g, t), s_ in zip(merged, sets):
                rest = [x for x in s_ if not any(c.eq(x, y) for y in common)]
                stripped.append((self._bool("and", rest) if rest else c.mk(("const", True)), t))
            merged = stripped
        merged.sort(key=lambda gt: (gt[1].key(), gt[0].key()))
        flat = []
        for g, t in merged:
            flat += [g, t]
        return c.mk(("gphi",), flat, typ)

    def _param_reaches(self, name, at, restrict):
        """is there a path entry->at along which parameter `name` is not rebound"""
        if name not in self._local_names:
            return True
        allowed = restrict
        seen = set()
        st = [self.cfg.entry.id]
        while st:
            x = st.pop()
            if x in seen:
                continue
            seen.add(x)
            if x == at.id:
                return True
            if x != self.cfg.entry.id and any(d[0] == name for d in self.cfg.defs_of_node(self.cfg.nodes[x])):
                continue
            for s in self.cfg.succ[x]:
                if allowed is None or s in allowed:
                    st.append(s)
        return False

    def _all_defs(self, name):
        return [n for n in self.cfg.nodes if any(d[0] == name for d in self.cfg.defs_of_node(n))]

    def _global(self, name):
        imp = self.func.module.imports.get(name)
        if imp:
            canon = {"numpy": "np", "discretisedfield": "df", "discretisedfield.util": "dfu",
                     "discretisedfield.plotting": "dfp", "scipy.fft": "spfft",
                     "discretisedfield.plotting.util": "plot_util"}.get(imp)
            if canon:
                return self._sym(canon)
            return self._sym(imp.lstrip("."))
        mod = self.func.module
        for q in (f"{mod.name}.{name}",):
            if q in self.repo.funcs:
                return self._sym(f"fn:{q}")
            if q in self.repo.classes:
                return self._sym(f"cls:{q}", None)
        lit = self._module_constant(mod, name)
        if lit is not None:
            return lit
        return self._sym(name)

    def _module_constant(self, mod, name):
        """a module-level name that is bound exactly once, at the top level of the module, to a literal number / string /
        None / bool (a named constant) IS that literal"""
        cache = mod.__dict__.setdefault("_const_cache", {})
        if name not in cache:
            val = None
            binds = 0
            for st in mod.tree.body:
                tg = st.targets if isinstance(st, ast.Assign) else [st.target] if isinstance(st, (ast.AnnAssign, ast.AugAssign)) else []
                for t in tg:
                    for n in ast.walk(t):
                        if isinstance(n, ast.Name) and n.id == name:
                            binds += 1
                            v = getattr(st, "value", None)
                            if isinstance(st, ast.Assign) and len(st.targets) == 1 and isinstance(t, ast.Name):
                                if isinstance(v, ast.UnaryOp) and isinstance(v.op, ast.USub) and isinstance(v.operand, ast.Constant):
                                    val = ("neg", v.operand.value)
                                elif isinstance(v, ast.Constant):
                                    val = ("lit", v.value)
                                elif isinstance(v, ast.Tuple) and v.elts and all(
                                        (isinstance(x, ast.Constant) and isinstance(x.value, (str, int, float)) and
                                         not isinstance(x.value, bool)) or
                                        (isinstance(x, ast.Name) and x.id != name and self._module_constant(mod, x.id) is not None)
                                        for x in v.elts):
                                    val = ("tuple", v)       # an immutable table of literals / named literals
            # rebinding anywhere else (global statements, loops / ifs at module level) disqualifies the name
            for n in ast.walk(mod.tree):
                if isinstance(n, ast.Global) and name in n.names:
                    binds += 1
                if isinstance(n, (ast.For, ast.If, ast.With, ast.Try, ast.While)) and n in mod.tree.body:
                    for m_ in ast.walk(n):
                        if isinstance(m_, ast.Name) and m_.id == name and not isinstance(m_.ctx, ast.Load):
                            binds += 1
            cache[name] = val if binds == 1 else None
        val = cache[name]
        if val is None:
            return None
        kind, x = val
        if kind == "tuple":
            if not self.exact:
                return None
            return self.ctx.mk(("tuple",), [self._module_constant(mod, e.id) if isinstance(e, ast.Name) else self._t(e, None, None)
                                            for e in x.elts])
        if isinstance(x, bool) or x is None:
            return self.ctx.mk(("const", x))
        if isinstance(x, str):
            return self.ctx.mk(("str", x))
        if isinstance(x, (int, float)):
            node = ast.Constant(value=x)
            t = self._t(node, None, None)
            return r_neg(t) if kind == "neg" else t
        return None

    def _def_term(self, name, node, restrict):
        key = ("def", name, node.id, restrict, self.alias_mode, self.exact)
        if key in self._cache:
            return self._cache[key]
        if key in self._stack:
            # loop-carried value: cut at the definition itself (canonical, independent of where evaluation started);
            # every frame opened after that definition now depends on the cut and must not be cached
            pos = self._stack.index(key)
            for fr in self._foreign[pos + 1:]:
                fr.add(key)
            self._cutcount[0] += 1
            return self.ctx.mk(("carried", node.id), ())
        self._stack.append(key)
        self._foreign.append(set())
        saved_keep = self._keep_seq
        self._keep_seq = False      # index mode applies to the literal subscript expression only
        saved_bound = self.bound
        # comprehension / lambda variables are scoped to their expression: they must not capture same-named
        # locals while another statement's definition is evaluated
        self.bound = {k: v for k, v in saved_bound.items() if k not in self._local_names and k not in self._params}
        saved_gens = self._open_gens[:]
        del self._open_gens[:]      # a definition is evaluated where it stands, outside the comprehension that uses it
        try:
            res = None
            alld = [d for d in self.cfg.defs_of_node(node) if d[0] == name]
            if alld and all(d[1] in ("setitem", "augitem", "mutcall") for d in alld):
                prev = self._name_before(name, node, restrict)
                cur = prev
                for dname, how, payload in alld:
                    if how == "setitem":
                        target, value, path = payload
                        v = value
                        p = list(path)
                        while p and isinstance(v, (ast.Tuple, ast.List)) and isinstance(p[0], int) \
                                and p[0] < len(v.elts) and not any(isinstance(e, ast.Starred) for e in v.elts):
                            v = v.elts[p.pop(0)]
                        val = self._project(self._t(v, node, restrict), p)
                        idx = self._index(target.slice, node, restrict)
                        rep = self._replaced_element(cur, idx, val) if self.exact else None
                        cur = rep if rep is not None else self.ctx.mk(("store",), (cur, idx, val))
                    elif how == "augitem":
                        st = payload
                        idx = self._index(st.target.slice, node, restrict)
                        old = self._subscript(prev, idx)
                        val = self._binop(st.op, old, self._t(st.value, node, restrict))
                        cur = self.ctx.mk(("store",), (cur, idx, val))
                    else:
                        call = payload
                        args = [self._t(a, node, restrict) for a in call.args]
                        hc_ = self.ctx.head_of(cur)
                        if self.exact and call.func.attr == "append" and len(args) == 1 and not call.keywords and hc_ == ("list",):
                            cur = self.ctx.mk(("list",), list(self.ctx.args_of(cur)) + args)      # [a].append(b) is [a, b]
                        else:
                            cur = self.ctx.mk(("mut", call.func.attr), [cur] + args)
                res = cur
                alld = []
            for dname, how, payload in alld:
                if dname != name:
                    continue
                if how in ("assign", "iter", "with"):
                    value, path = payload
                    if how == "assign":
                        base = None
                        # element-wise tuple assignment  a, b = x, y
                        v = value
                        p = list(path)
                        while p and isinstance(v, (ast.Tuple, ast.List)) and isinstance(p[0], int) \
                                and p[0] < len(v.elts) and not any(isinstance(e, ast.Starred) for e in v.elts):
                            v = v.elts[p.pop(0)]
                        base = self._t(v, node, restrict)
                        res = self._project(base, p)
                        st_ = getattr(node, "stmt", None)
                        if path and isinstance(path[0], int) and isinstance(st_, ast.Assign) and len(st_.targets) == 1 and \
                                isinstance(st_.targets[0], (ast.Tuple, ast.List)) and \
                                not any(isinstance(e_, ast.Starred) for e_ in st_.targets[0].elts):
                            # `a, b, c = X` with X a display of another length raises: the names are bound to nothing that
                            # a correct form could equal
                            full = self._t(value, node, restrict)
                            hf = self.ctx.head_of(full)
                            if hf and hf[0] in ("tuple", "list") and len(hf) == 1 and \
                                    not any((self.ctx.head_of(x_) or ("",))[0] == "star" for x_ in self.ctx.args_of(full)) and \
                                    len(self.ctx.args_of(full)) != len(st_.targets[0].elts):
                                res = self.ctx.mk(("unpack-error", len(st_.targets[0].elts)), (full,))
                    elif how == "iter":
                        it = self._t(value, node, restrict)
                        res = self._iter_elem(it, path, depth=self._loop_depth(node.stmt, it, restrict))
                    else:
                        res = self.ctx.mk(("with", tuple(path)), (self._t(value, node, restrict),))
                elif how == "aug":
                    st = payload
                    prev = self._name_before(name, node, restrict)
                    rhs = self._t(st.value, node, restrict)
                    res = self._binop(st.op, prev, rhs)
                elif how == "outcall":
                    res = self._t(payload, node, restrict)
                elif how == "def":
                    # several nested definitions may share one name (bound under different conditions): the symbol says
                    # which one - name, name#2, name#3 in source order (the convention of Repo.funcs)
                    same = sorted((n.lineno, n.col_offset) for n in ast.walk(self.func.node)
                                  if isinstance(n, (ast.FunctionDef, ast.AsyncFunctionDef)) and n is not self.func.node
                                  and n.name == payload.name)
                    k = same.index((payload.lineno, payload.col_offset)) + 1 if (payload.lineno, payload.col_offset) in same else 1
                    res = self._sym(f"localfn:{payload.name}" + (f"#{k}" if k > 1 else ""))
                elif how == "import":
                    res = self._sym(f"import:{name}")
                elif how == "except":
                    res = self.ctx.mk(("exc",), ())
                elif how == "walrus":
                    res = self._t(payload, node, restrict)
                break
            if res is None:
                raise AnalysisError(f"{self.func.qual}: cannot resolve definition of {name}")
        finally:
            self._keep_seq = saved_keep
            self.bound = saved_bound
            self._open_gens[:] = saved_gens
            self._stack.pop()
            foreign = self._foreign.pop()
        if not foreign:
            self._cache[key] = res
        elif self._foreign:
            self._foreign[-1] |= {k for k in foreign if k in self._stack}
        return res

    def _name_before(self, name, node, restrict):
        return self._name(name, node, restrict)

    def _project(self, base, path):
        for p in path:
            h = self.ctx.head_of(base)
            if h and h[0] in ("tuple", "list") and isinstance(p, int):
                base = self.ctx.args_of(base)[p]
            else:
                base = self.ctx.mk(("unpack", p), (base,))
        return base

    def _loop_depth(self, stmt, it, restrict):
        """how many loops that run over the same thing are open around this one (enclosing `for` statements of stmt and
        comprehension generators being evaluated): the element of the inner loop is another value than the element of the
        outer one, although both are "an element of X" """
        base = self._loop_base(it)
        k = 0
        for b in self._open_gens:
            if self.ctx.eq(b, base):
                k += 1
        cur = stmt
        for p, f in (self.cfg.enclosing(stmt) if stmt is not None else ()):
            if isinstance(p, ast.For) and f == "body" and p is not cur:
                try:
                    pb = self._loop_base(self._t(p.iter, self.cfg.node(p), restrict))
                except AnalysisError:
                    continue
                if self.ctx.eq(pb, base):
                    k += 1
        return k

    def _iter_elem(self, it, path, depth=0):
        """abstract element of iterable `it`; sees through zip/enumerate when unpacked."""
        path = list(path)
        h = self.ctx.head_of(it)
        while path and h and h[0] == "call":
            fname = h[1]
            args = self.ctx.args_of(it)
            if fname == "zip" and isinstance(path[0], int) and path[0] < len(args) and not (len(h) > 3 and h[3]):
                it = args[path.pop(0)]
                h = self.ctx.head_of(it)
                # element of that operand
                return self._project_iter(self._each(it, depth), path)
            if fname == "enumerate" and isinstance(path[0], int) and len(args) >= 1:
                k = path.pop(0)
                if k == 0:
                    res = self.ctx.mk(("index",) if not depth else ("index", depth),
                                      (self._loop_base(args[0]) if self.exact else args[0],))
                    return self._project_iter(res, path)
                return self._project_iter(self._each(args[0], depth), path)
            break
        return self._project_iter(self._each(it, depth), path)

    def _each(self, it, depth=0):
        """the abstract element of iterable `it`; the element of `[g(x) for x in A]` (one loop, no filter) is g(element of A)"""
        h = self.ctx.head_of(it)
        if h and h[0] == "seqcomp" and h[1] == 1 and not depth:
            ar = self.ctx.args_of(it)
            if self.ctx.head_of(ar[1]) == ("gen", 0):
                return ar[0]
        if self.exact and h and h[0] == "gphi" and not depth:
            # the element of "one of several sequences" is "one of their elements" (same gates)
            ar = self.ctx.args_of(it)
            return self._mk_gphi([(ar[i], self._each(ar[i + 1])) for i in range(0, len(ar), 2)])
        if self.exact and not depth and self._simple_dictcomp(it) is not None:
            return self._simple_dictcomp(it)[0]
        return self.ctx.mk(("iter", (depth,) if depth else ()), (it,))

    def _simple_dictcomp(self, it):
        """(key, value, base) of `{k: v for ... in base}` (one loop, no filter) whose key is the element of a sequence the
        loop runs over: iterating it is iterating those keys (dictionary keys taken from the labels / dimension names /
        file keys of this package are distinct, so no round is merged with another)"""
        c = self.ctx
        h = c.head_of(it)
        if not (h and h[0] == "dictcomp" and h[1] == 1):
            return None
        ar = c.args_of(it)
        if c.head_of(ar[1]) != ("gen", 0) or c.head_of(ar[0]) != ("item",):
            return None
        k, v_ = c.args_of(ar[0])
        hk = c.head_of(k)
        if not (hk and hk[0] == "iter"):
            return None
        return k, v_, c.args_of(ar[1])[0]

    def _loop_base(self, it):
        """what a loop really runs over: enumerate(X), zip(X, derived-from-X ...) and [g(x) for x in X] (no filter) have one
        round per element of X, in the order of X (the loop variables are terms over the element of X already)"""
        c = self.ctx
        for _ in range(8):
            h = c.head_of(it)
            if h and h[0] == "call" and h[1] == ".keys" and len(c.args_of(it)) == 1 and not (len(h) > 3 and h[3]):
                it = c.args_of(it)[0]
                continue
            if h and h[0] == "call" and h[1] == "enumerate" and len(c.args_of(it)) == 1 and not (len(h) > 3 and h[3]):
                it = c.args_of(it)[0]
                continue
            if h and h[0] == "seqcomp" and h[1] == 1 and c.head_of(c.args_of(it)[1]) == ("gen", 0):
                it = c.args_of(c.args_of(it)[1])[0]
                continue
            if self.exact and self._simple_dictcomp(it) is not None:
                it = self._simple_dictcomp(it)[2]
                continue
            if self.exact and h and h[0] == "gphi":
                # alternatives that all run over the same thing
                ar = c.args_of(it)
                bases = [self._loop_base(ar[i + 1]) for i in range(0, len(ar), 2)]
                if bases and all(c.eq(bases[0], b_) for b_ in bases[1:]):
                    it = bases[0]
                    continue
            b = self._zip_base(it)
            if b is it or c.eq(b, it):
                break
            it = b
        return it

    def _project_iter(self, res, path):
        for p in path:
            h = self.ctx.head_of(res)
            if h and h[0] in ("tuple", "list") and isinstance(p, int) and 0 <= p < len(self.ctx.args_of(res)) and \
                    not any((self.ctx.head_of(x) or ("",))[0] == "star" for x in self.ctx.args_of(res)):
                res = self.ctx.args_of(res)[p]
                continue
            res = self.ctx.mk(("unpack", p), (res,))
        self._type_elem(res)
        return res

    def _type_elem(self, res):
        """elements of Mesh.subregions are Regions"""
        c = self.ctx
        a = res.single_atom()
        if a is None or a in c.types:
            return
        head, args = c.atoms[a]
        it = None
        if head[0] == "iter" and args:
            it = args[0]
            want = ".values"
        elif head == ("sub",) and len(args) == 2 and args[1].const() == 1:
            h2 = c.head_of(args[0])
            if h2 and h2[0] == "iter":
                it = c.args_of(args[0])[0]
                want = ".items"
        if it is None:
            return
        h = c.head_of(it)
        if h and h[0] == "call" and h[1] == want:
            base = c.args_of(it)[0]
            hb = c.head_of(base)
            if hb and hb[0] == "attr" and hb[1] == "_subregions":
                c.types[a] = "region.Region"

    # ------------------------------------------------------------ expressions
    def _t(self, e, at, restrict):
        # Name nodes are often built ad hoc by rules: key them by identifier, never by a reusable memory address
        ek = ("name", e.id) if isinstance(e, ast.Name) else id(e)
        if not isinstance(e, ast.Name):
            self._pinned.append(e)      # keep the node alive as long as its id() is a cache key
        k = (ek, at.id if at is not None else None, restrict, self.alias_mode, self._keep_seq, self.exact,
             tuple(sorted((n, id(v)) for n, v in self.bound.items())))
        if k in self._cache:
            return self._cache[k]
        c0 = self._cutcount[0]
        r = self._t2(e, at, restrict)
        if self._cutcount[0] == c0 or not self._stack:
            self._cache[k] = r
        return r

    def _t2(self, e, at, R):
        c = self.ctx
        T = lambda x: self._t(x, at, R)  # noqa: E731
        if isinstance(e, ast.Constant):
            v = e.value
            if isinstance(v, bool) or v is None or v is Ellipsis:
                return c.mk(("const", v))
            if isinstance(v, (int, float)):
                if isinstance(v, float) and (v != v or v in (float("inf"), float("-inf"))):
                    return c.mk(("const", repr(v)))
                return c.const(Fraction(v) if isinstance(v, int) else Fraction(repr(v)))
            if isinstance(v, str):
                return c.mk(("str", v))
            return c.mk(("const", repr(v)))
        if isinstance(e, ast.Name):
            return self._name(e.id, at, R)
        if isinstance(e, ast.Attribute):
            return self._attr(T(e.value), e.attr)
        if isinstance(e, ast.BinOp):
            return self._binop(e.op, T(e.left), T(e.right))
        if isinstance(e, ast.UnaryOp):
            x = T(e.operand)
            if isinstance(e.op, ast.USub):
                if self.exact and not x.is_const():
                    return c.mk(("fneg",), (x,))
                return r_neg(x)
            if isinstance(e.op, ast.UAdd):
                return c.mk(("call", "np.positive", 1, ()), (x,)) if self.alias_mode else x
            return self._not(x)
        if isinstance(e, ast.BoolOp):
            if self.exact and id(e) not in self._condition_nodes():
                # `a or b` as a VALUE is the first truthy operand: the order matters - unless every operand is a truth
                # value anyway (comparisons, type tests, ...), then it is the connective
                vals = [T(v) for v in e.values]
                if all(self._is_truth_value(x) for x in vals):
                    return self._bool("and" if isinstance(e.op, ast.And) else "or", vals)
                return c.mk(("boolop", "and" if isinstance(e.op, ast.And) else "or"), vals)
            return self._bool("and" if isinstance(e.op, ast.And) else "or", [T(v) for v in e.values])
        if isinstance(e, ast.Compare):
            parts = []
            left = T(e.left)
            for op, right in zip(e.ops, e.comparators):
                r = T(right)
                parts.append(self._cmp(op, left, r))
                left = r
            return parts[0] if len(parts) == 1 else self._bool("and", parts)
        if isinstance(e, ast.Call):
            return self._call(e, at, R)
        if isinstance(e, ast.Subscript):
            return self._subscript(T(e.value), self._index(e.slice, at, R))
        if isinstance(e, ast.Tuple):
            els = self._splice([T(x) for x in e.elts])
            if self.exact and len(els) == 1 and (c.head_of(els[0]) or ("",))[0] == "star":
                # (*X,) is tuple(X)
                return self._func_call("tuple", [c.args_of(els[0])[0]], [], {}, False)
            return c.mk(("tuple",), els)
        if isinstance(e, ast.List):
            return c.mk(("list",), self._splice([T(x) for x in e.elts]))
        if isinstance(e, ast.Set):
            return c.mk(("set",), sorted((T(x) for x in e.elts), key=lambda r: r.key()))
        if isinstance(e, ast.Dict):
            items = []
            for kx, vx in zip(e.keys, e.values):
                if kx is None:
                    items.append(c.mk(("dictstar",), (T(vx),)))
                else:
                    items.append(c.mk(("item",), (T(kx), T(vx))))
            return c.mk(("dict",), items)
        if isinstance(e, ast.Starred):
            return c.mk(("star",), (T(e.value),))
        if isinstance(e, ast.IfExp):
            return self._ifexp(T(e.test), T(e.body), T(e.orelse))
        if isinstance(e, ast.JoinedStr):
            parts = []
            for v in e.values:
                if isinstance(v, ast.Constant):
                    parts.append(c.mk(("str", v.value)))
                else:
                    spec = T(v.format_spec) if v.format_spec is not None else c.mk(("const", None))
                    val = T(v.value)
                    hv = c.head_of(val)
                    if self.exact and v.conversion == -1 and v.format_spec is None and hv and hv[0] == "str":
                        parts.append(val)           # f"{'k_'}{x}" is f"k_{x}": a formatted string constant is its text
                    else:
                        parts.append(c.mk(("fmt", v.conversion), (val, spec)))
            if self.exact:
                merged = []
                for p_ in parts:
                    hp = c.head_of(p_)
                    if merged and hp and hp[0] == "str" and (c.head_of(merged[-1]) or ("",))[0] == "str":
                        merged[-1] = c.mk(("str", c.head_of(merged[-1])[1] + hp[1]))
                    else:
                        merged.append(p_)
                parts = merged
            return c.mk(("fstr",), parts)
        if isinstance(e, ast.Lambda):
            depth = sum(1 for n in self.bound if n.startswith("\x00lam"))
            names = [a.arg for a in e.args.posonlyargs + e.args.args]
            env = {n: c.mk(("lam", depth, i)) for i, n in enumerate(names)}
            env["\x00lam%d" % depth] = c.const(0)
            body = self.with_bound(env)._t(e.body, at, R)
            return c.mk(("lambda", len(names)), (body,))
        if isinstance(e, (ast.ListComp, ast.GeneratorExp, ast.SetComp, ast.DictComp)):
            return self._comp(e, at, R)
        if isinstance(e, ast.NamedExpr):
            return T(e.value)
        if isinstance(e, ast.Slice):
            return self._index(e, at, R)
        if isinstance(e, ast.Await):
            return T(e.value)
        if isinstance(e, ast.Yield):
            return c.mk(("yield",), (T(e.value),) if e.value is not None else ())
        if isinstance(e, ast.YieldFrom):
            return c.mk(("yieldfrom",), (T(e.value),))
        if isinstance(e, ast.FormattedValue):
            return T(e.value)
        raise AnalysisError(f"{self.func.qual}: unsupported expression {type(e).__name__}")

    def _ifexp(self, t, a, b):
        if self.ctx.eq(a, b):
            return a
        if self.exact:
            return self._mk_gphi([(t, a), (self._not(t), b)])
        return self.ctx.mk(("ifexp",), (t, a, b))

    def _comp(self, e, at, R):
        c = self.ctx
        ev = self
        gens = []
        # a comprehension whose first loop runs over a short literal tuple/list is the concatenation of one comprehension per
        # element:  [f(x, i) for x in (a, b) for i in g(x)]  ==  [f(a, i) for i in g(a)] + [f(b, i) for i in g(b)]
        g0 = e.generators[0]
        lit = g0.iter.elts if isinstance(g0.iter, (ast.Tuple, ast.List)) else None
        if isinstance(g0.iter, ast.Call) and isinstance(g0.iter.func, ast.Name) and g0.iter.func.id == "range" \
                and len(g0.iter.args) == 1 and not g0.iter.keywords and isinstance(g0.iter.args[0], ast.Constant) \
                and type(g0.iter.args[0].value) is int and 1 <= g0.iter.args[0].value <= 4 and self.exact:
            # range(3) with a literal bound is the tuple (0, 1, 2)
            lit = [ast.copy_location(ast.Constant(i), g0.iter) for i in range(g0.iter.args[0].value)]
        if isinstance(e, (ast.ListComp, ast.GeneratorExp)) and lit is not None and not g0.ifs \
                and isinstance(g0.target, ast.Name) and 1 <= len(lit) <= 4 \
                and not any(isinstance(x, ast.Starred) for x in lit) and not getattr(g0, "is_async", 0):
            parts = []
            for el in lit:
                sub = self.with_bound({g0.target.id: self._t(el, at, R)})
                if len(e.generators) == 1:
                    parts.append(sub._t(e.elt, at, R))
                else:
                    rest = type(e)(elt=e.elt, generators=e.generators[1:])
                    ast.copy_location(rest, e)
                    parts.append(sub._comp(rest, at, R))
            if len(e.generators) == 1:
                return c.mk(("list",), parts)
            out = parts[0]
            for p_ in parts[1:]:
                out = c.mk(("concat",), (out, p_))
            return out
        if self.exact and isinstance(e, (ast.ListComp, ast.GeneratorExp)) and len(e.generators) == 1 and not g0.ifs \
                and isinstance(g0.target, ast.Name) and not getattr(g0, "is_async", 0):
            # the same over a name that is bound to a short display:  pair = [a, b]; [f(x) for x in pair]
            it0 = self._t(g0.iter, at, R)
            h0 = c.head_of(it0)
            if h0 and h0[0] == "gphi" and isinstance(g0.iter, ast.Name) and len(c.args_of(it0)) <= 8:
                # a comprehension over "one of several sequences" is one of several comprehensions
                ar = c.args_of(it0)
                return self._mk_gphi([(ar[i], self.with_bound({g0.iter.id: ar[i + 1]})._comp(e, at, R))
                                      for i in range(0, len(ar), 2)])
            if h0 and h0[0] in ("list", "tuple") and len(h0) == 1 and 1 <= len(c.args_of(it0)) <= 4 and \
                    not any((c.head_of(x) or ("",))[0] == "star" for x in c.args_of(it0)):
                return c.mk(("list",), [self.with_bound({g0.target.id: el})._t(e.elt, at, R) for el in c.args_of(it0)])
        opened = 0
        try:
            for g in e.generators:
                it = ev._t(g.iter, at, R)
                depth = self._loop_depth(at.stmt if at is not None else None, it, R)
                env = {}
                for name, how, (value, path) in _comp_targets(g.target):
                    env[name] = ev._iter_elem(it, path, depth=depth)
                ev = ev.with_bound(env)
                self._open_gens.append(self._loop_base(it))
                opened += 1
                conds = [ev._t(x, at, R) for x in g.ifs]
                gens.append(c.mk(("gen", len(conds)), [self._loop_base(it) if self.exact else self._zip_base(it)] + conds))
            if isinstance(e, ast.DictComp):
                elt = c.mk(("item",), (ev._t(e.key, at, R), ev._t(e.value, at, R)))
                kind = "dictcomp"
            else:
                elt = ev._t(e.elt, at, R)
                kind = {"ListComp": "seqcomp", "GeneratorExp": "seqcomp", "SetComp": "setcomp"}[type(e).__name__]
        finally:
            for _ in range(opened):
                self._open_gens.pop()
        return c.mk((kind, len(gens)), [elt] + gens)

    def _zip_base(self, it):
        """zip(A, [g(x) for x in A], A ...) runs exactly over A: as a loop range it IS A (the elements were bound through
        the zip already)"""
        c = self.ctx
        h = c.head_of(it)
        if not (h and h[0] == "call" and h[1] == "zip" and not (len(h) > 3 and h[3])):
            return it
        base = None
        for x in c.args_of(it):
            hx = c.head_of(x)
            b = x
            if hx and hx[0] == "seqcomp" and hx[1] == 1 and c.head_of(c.args_of(x)[1]) == ("gen", 0):
                b = c.args_of(c.args_of(x)[1])[0]
            elif self.exact and hx and hx[0] == "gphi":
                ar = c.args_of(x)
                bs = []
                for i in range(0, len(ar), 2):
                    y = ar[i + 1]
                    hy = c.head_of(y)
                    if hy and hy[0] == "seqcomp" and hy[1] == 1 and c.head_of(c.args_of(y)[1]) == ("gen", 0):
                        bs.append(c.args_of(c.args_of(y)[1])[0])
                    else:
                        bs = []
                        break
                if bs and all(c.eq(bs[0], b_) for b_ in bs[1:]):
                    b = bs[0]
            if base is None:
                base = b
            elif not c.eq(base, b):
                return it
        return base if base is not None else it

    def _index(self, s, at, R):
        saved = self._keep_seq
        self._keep_seq = True
        try:
            return self._index2(s, at, R)
        finally:
            self._keep_seq = saved

    def _index2(self, s, at, R):
        c = self.ctx
        if isinstance(s, ast.Slice):
            none = c.mk(("const", None))
            parts = [self._t(x, at, R) if x is not None else none for x in (s.lower, s.upper, s.step)]
            return c.mk(("slice",), parts)
        if isinstance(s, ast.Tuple):
            els = self._splice([self._index2(x, at, R) for x in s.elts])
            if self.exact and len(els) == 1 and (c.head_of(els[0]) or ("",))[0] == "star":
                return self._func_call("tuple", [c.args_of(els[0])[0]], [], {}, False)       # x[(*s,)] is x[tuple(s)]
            return c.mk(("tuple",), els)
        if isinstance(s, ast.Starred):
            return c.mk(("star",), (self._t(s.value, at, R),))
        return self._t(s, at, R)

    def _subscript(self, base, idx):
        c = self.ctx
        h = c.head_of(base)
        # literal tuple/list indexed by a literal int
        k = idx.const()
        if h and h[0] in ("tuple", "list") and k is not None and k.denominator == 1:
            args = c.args_of(base)
            if -len(args) <= k < len(args) and not any((c.head_of(a) or ("",))[0] == "star" for a in args):
                return args[int(k)]
        if self.exact:
            sd = self._simple_dictcomp(base)
            if sd is not None and c.eq(sd[0], idx):
                return sd[1]        # looked up with the key of the current round: the value of that round
        return c.mk(("sub",), (base, idx))

    def _replaced_element(self, base, idx, val):
        """list(X) with element k replaced, for an axis number k (never negative), is [*X[:k], v, *X[k + 1:]]"""
        c = self.ctx
        hb = c.head_of(base)
        if not (hb and hb[0] == "call" and hb[1] == "list" and len(c.args_of(base)) == 1 and not (len(hb) > 3 and hb[3])):
            return None
        hi = c.head_of(idx)
        k = idx.const()
        nonneg = (k is not None and k >= 0 and k.denominator == 1) or \
            (hi and hi[0] == "call" and str(hi[1]).endswith("_dim2index"))
        if not nonneg:
            return None
        x = c.args_of(base)[0]
        none = c.mk(("const", None))
        lo = c.mk(("sub",), (x, c.mk(("slice",), (none, idx, none))))
        hi_ = c.mk(("sub",), (x, c.mk(("slice",), (self._binop(ast.Add(), idx, c.const(1)), none, none))))
        return c.mk(("list",), [c.mk(("star",), (lo,)), val, c.mk(("star",), (hi_,))])

    def _splice(self, elts):
        """[*[a, b], c] is [a, b, c]"""
        if not self.exact:
            return elts
        c = self.ctx
        out = []
        for x in elts:
            h = c.head_of(x)
            if h and h[0] == "star":
                inner = c.args_of(x)[0]
                hi = c.head_of(inner)
                if hi and hi[0] in ("tuple", "list"):
                    out.extend(c.args_of(inner))
                    continue
            out.append(x)
        return out

    # ------------------------------------------------------------ operators
    def _binop(self, op, a, b):
        c = self.ctx
        if self.exact and not isinstance(op, (ast.BitAnd, ast.BitOr)) and not (a.is_const() and b.is_const()):
            # floating-point arithmetic is neither associative nor distributive: in exact mode an operation is the
            # operation that was written (x + y*f - x is not y*f).  What IS exact in IEEE arithmetic: dividing by a power of
            # two is multiplying by its reciprocal (x / 2.0 == 0.5 * x, both are the correctly rounded value of the same
            # number), and a product / sum with a literal number does not depend on the order of its operands
            opn = type(op).__name__
            if opn == "Div" and b.is_const() and b.const() != 0:
                kb = abs(b.const())
                if kb.numerator == 1 or kb.denominator == 1:
                    m = kb.denominator if kb.numerator == 1 else kb.numerator
                    if m & (m - 1) == 0 and m > 1:
                        opn, b = "Mult", c.const(1 / b.const())
            if opn in ("Mult", "Add") and a.is_const() and not b.is_const() and not isinstance(a.const(), bool):
                a, b = b, a
            if opn == "Add":
                # concatenation with a tuple / list display is a display with the other operand spliced in:
                # x[:k] + (v,) + x[k + 1:]  is  (*x[:k], v, *x[k + 1:])
                ha, hb = c.head_of(a), c.head_of(b)
                la = ha[0] if ha and ha[0] in ("tuple", "list") and len(ha) == 1 else None
                lb = hb[0] if hb and hb[0] in ("tuple", "list") and len(hb) == 1 else None
                if la or lb:
                    if la and lb and la != lb:
                        return c.mk(("fbin", opn), (a, b))         # tuple + list raises: left as written
                    kind = la or lb
                    left = list(c.args_of(a)) if la else [c.mk(("star",), (a,))]
                    right = list(c.args_of(b)) if lb else [c.mk(("star",), (b,))]
                    return c.mk((kind,), left + right)
            return c.mk(("fbin", opn), (a, b))
        if isinstance(op, ast.Add):
            # list/tuple/str concatenation stays symbolic but commutative-insensitive is wrong for
            # sequences; sequences are recognised by their heads
            ha, hb = c.head_of(a), c.head_of(b)
            if (ha and ha[0] in ("list", "tuple", "str", "fstr", "seqcomp")) or \
               (hb and hb[0] in ("list", "tuple", "str", "fstr", "seqcomp")):
                return c.mk(("concat",), (a, b))
            return r_add(a, b)
        if isinstance(op, ast.Sub):
            return r_sub(a, b)
        if isinstance(op, ast.Mult):
            ha, hb = c.head_of(a), c.head_of(b)
            if (ha and ha[0] in ("list", "tuple", "str")) or (hb and hb[0] in ("list", "tuple", "str")):
                return c.mk(("repeat",), (a, b))
            return r_mul(a, b)
        if isinstance(op, ast.Div):
            return r_div(a, b)
        if isinstance(op, ast.Pow):
            k = b.const()
            if k is not None and k.denominator == 1 and abs(k) <= 8:
                return r_pow(a, int(k))
            return c.mk(("pow",), (a, b))
        if isinstance(op, ast.BitAnd):
            return self._bool("and", [a, b])
        if isinstance(op, ast.BitOr):
            return self._bool("or", [a, b])
        name = type(op).__name__
        if name in ("Mod", "FloorDiv"):
            ka, kb = a.const(), b.const()
            if ka is not None and kb is not None and ka.denominator == 1 and kb.denominator == 1 and kb != 0:
                # integer literals: (i + 1) % 3 for i = 1 is 2
                return c.const(int(ka) % int(kb) if name == "Mod" else int(ka) // int(kb))
        return c.mk(("binop", name), (a, b))

    def _not(self, x):
        c = self.ctx
        h = c.head_of(x)
        if h:
            args = c.args_of(x)
            if h[0] == "not":
                return args[0]
            if h[0] == "cmp":
                neg = {"eq": "ne", "ne": "eq", "is": "isnot", "isnot": "is", "in": "notin", "notin": "in"}
                if h[1] in neg:
                    return c.mk(("cmp", neg[h[1]]), args)
                if h[1] == "lt":     # not a<b  ==  b<=a
                    return c.mk(("cmp", "le"), (args[1], args[0]))
                if h[1] == "le":
                    return c.mk(("cmp", "lt"), (args[1], args[0]))
            if h[0] == "and":
                return self._bool("or", [self._not(a) for a in args])
            if h[0] == "or":
                return self._bool("and", [self._not(a) for a in args])
            if h[0] == "const" and isinstance(h[1], bool):
                return c.mk(("const", not h[1]))
            if h[0] == "call" and h[1] in ("all", "any") and len(args) == 1 and not (len(h) > 3 and h[3]):
                # quantifier duality: not all(P(x) for x in xs) == any(not P(x) for x in xs), and the other way round
                hs = c.head_of(args[0])
                if hs and hs[0] == "seqcomp":
                    sa = c.args_of(args[0])
                    comp = c.mk(hs, [self._not(sa[0])] + list(sa[1:]))
                    return c.mk(("call", "any" if h[1] == "all" else "all") + tuple(h[2:]), (comp,))
        return c.mk(("not",), (x,))

    def _bool(self, kind, parts):
        c = self.ctx
        flat = []
        for p in parts:
            h = c.head_of(p)
            if h and h[0] == kind:
                flat.extend(c.args_of(p))
            else:
                flat.append(p)
        uniq = []
        for p in flat:
            hp = c.head_of(p)
            if hp and hp[0] == "const" and isinstance(hp[1], bool):
                if hp[1] is (kind == "and"):
                    continue                      # the neutral element
                return c.mk(("const", hp[1]))     # the absorbing element
            if not any(c.eq(p, u) for u in uniq):
                uniq.append(p)
        if not uniq:
            return c.mk(("const", kind == "and"))
        if len(uniq) == 1:
            return uniq[0]
        uniq.sort(key=lambda r: r.key())
        return c.mk((kind,), uniq)

    def _cmp(self, op, a, b):
        c = self.ctx
        name = {ast.Eq: "eq", ast.NotEq: "ne", ast.Lt: "lt", ast.LtE: "le", ast.Gt: "gt", ast.GtE: "ge",
                ast.Is: "is", ast.IsNot: "isnot", ast.In: "in", ast.NotIn: "notin"}[type(op)]
        return self._cmpn(name, a, b)

    def _cmpn(self, name, a, b):
        c = self.ctx
        if name == "gt":
            name, a, b = "lt", b, a
        elif name == "ge":
            name, a, b = "le", b, a
        if name in ("eq", "ne", "is", "isnot"):
            if a.key() > b.key():
                a, b = b, a
        if self.exact and name in ("lt", "le"):
            # a length is a non-negative integer: len(x) > 0, len(x) >= 1 are len(x) != 0; len(x) < 1, len(x) <= 0 are == 0
            def is_len(t):
                h_ = c.head_of(t)
                return bool(h_) and h_[0] == "call" and h_[1] == "len"
            ka, kb = a.const(), b.const()
            if is_len(b) and ka is not None and ((name == "lt" and ka == 0) or (name == "le" and ka == 1)):
                return self._cmpn("ne", c.const(0), b)
            if is_len(a) and kb is not None and ((name == "lt" and kb == 1) or (name == "le" and kb == 0)):
                return self._cmpn("eq", c.const(0), a)
        if self.exact and name in ("in", "notin"):
            # membership in a short literal collection of constants is a disjunction of equalities (x in ["a"] is x == "a")
            hb = c.head_of(b)
            if hb and hb[0] in ("list", "tuple", "set") and 1 <= len(c.args_of(b)) and len(hb) == 1 and \
                    all(x.is_const() or (c.head_of(x) or ("",))[0] in ("str", "const") for x in c.args_of(b)):
                if len(c.args_of(b)) <= 4:
                    parts = [self._cmpn("eq" if name == "in" else "ne", a, x) for x in c.args_of(b)]
                    return parts[0] if len(parts) == 1 else self._bool("or" if name == "in" else "and", parts)
                # a longer table of literals: the kind of display (list / tuple / set) and the order are immaterial
                b = c.mk(("tuple",), sorted(c.args_of(b), key=lambda r: r.key()))
        return c.mk(("cmp", name), (a, b))

    # ------------------------------------------------------------ attributes
    def _attr(self, base, attr):
        c = self.ctx
        h = c.head_of(base)
        if h and h[0] == "gphi":
            ar = c.args_of(base)
            return self._mk_gphi([(ar[i], self._attr(ar[i + 1], attr)) for i in range(0, len(ar), 2)])
        if h and h[0] == "phi" and all(c.type_of(m) is not None for m in c.args_of(base)):
            # an attribute of "one of several repository objects" is "one of their attributes" (x = a or b; x.f == a.f or
            # b.f); arrays and other untyped values are left alone (x.reshape(*x.shape) must keep talking about one x)
            uniq = []
            for m in c.args_of(base):
                t = self._attr(m, attr)
                if not any(c.eq(t, u) for u in uniq):
                    uniq.append(t)
            if len(uniq) == 1:
                return uniq[0]
            types = {c.type_of(u) for u in uniq}
            return c.mk(("phi",), uniq, types.pop() if len(types) == 1 else None)
        if h and h[0] == "sym" and not h[1].startswith(("param:", "self", "fn:", "cls", "localfn:")) \
                and c.type_of(base) is None:
            # dotted module path: np.linalg.norm
            return self._sym(f"{h[1]}.{attr}")
        if attr == "__class__":
            t = c.type_of(base)
            return c.mk(("classof",), (base,), None) if t is None else c.mk(("classof",), (base,))
        typ = c.type_of(base)
        if typ is None and attr == "ndim" and not (h and h[0] == "sym" and h[1].startswith(("param:", "self", "cls"))):
            # number of axes of an array: x.ndim == len(x.shape)
            return c.mk(("call", "len", 1, ()), (c.mk(("attr", "shape"), (base,)),))
        if typ is not None:
            # data slots
            st = SLOT_TYPES.get((typ, attr))
            if attr.startswith("_") or st:
                if attr in self.repo.all_slots(typ) or st or True:
                    g = self.repo.resolve_getter(typ, attr)
                    if g is None:
                        return c.mk(("attr", attr), (base,), st)
            g = self.repo.resolve_getter(typ, attr)
            if g is not None:
                if self.expand and attr in EXPAND_PROPS.get(g.cls.qual if g.cls else typ, ()):
                    return self._expand_getter(g, base, typ)
                return c.mk(("prop", attr), (base,), PROP_RET.get((typ, attr)))
            m = self.repo.resolve_method(typ, attr)
            if m is not None:
                return c.mk(("method", attr), (base,))
            if typ == "field.Field":
                # component access through __getattr__
                return c.mk(("prop", attr), (base,), "field.Field")
            return c.mk(("attr", attr), (base,), SLOT_TYPES.get((typ, attr)))
        return c.mk(("attr", attr), (base,))

    def _expand_getter(self, g, base, typ):
        key = ("getter", g.qual, base.key(), self.alias_mode)
        if key in self._cache:
            return self._cache[key]
        if key in self._stack:
            return self.ctx.mk(("prop", g.node.name), (base,))
        self._stack.append(key)
        self._foreign.append(set())
        try:
            sub = Evaluator(self.repo, g, self.ctx, self_type=typ, expand=self.expand)
            sub.alias_mode = self.alias_mode
            sub.exact = self.exact
            sub.bound = {"self": base}
            sub.param_override = {"self": base}      # (`bound` is cleared while a local of the getter is resolved)
            rets = [st for st in ast.walk(g.node) if isinstance(st, ast.Return)]
            if len(rets) != 1 or rets[0].value is None:
                res = self.ctx.mk(("prop", g.node.name), (base,))
            else:
                res = sub.term(rets[0].value, at=rets[0])
        finally:
            self._stack.pop()
            self._foreign.pop()
        self._cache[key] = res
        return res

    # ------------------------------------------------------------ calls
    def _fname(self, r):
        h = self.ctx.head_of(r)
        if h and h[0] == "sym":
            return h[1]
        return None

    def _call(self, e, at, R):
        c = self.ctx
        self._cur_at = at
        T = lambda x: self._t(x, at, R)  # noqa: E731
        pos = []
        star = False
        for a in e.args:
            if isinstance(a, ast.Starred):
                # f(*(a, b)) == f(a, b): a starred literal tuple / list is spliced in
                inner = T(a.value)
                hi = c.head_of(inner)
                if hi and hi[0] in ("tuple", "list") and not any((c.head_of(x) or ("",))[0] == "star" for x in c.args_of(inner)):
                    pos.extend(c.args_of(inner))
                    continue
                star = True
            pos.append(T(a))
        kws = []
        for k in e.keywords:
            if k.arg is None:
                # f(**{"a": x, "b": y}) == f(a=x, b=y): a literal dict with string keys is spliced in
                inner = T(k.value)
                hi = c.head_of(inner)
                items = c.args_of(inner) if hi and hi[0] == "dict" else None
                if items is not None and items and all((c.head_of(it) or ("",))[0] == "item" and
                                                       (c.head_of(c.args_of(it)[0]) or ("",))[0] == "str" for it in items):
                    for it in items:
                        kws.append((c.head_of(c.args_of(it)[0])[1], c.args_of(it)[1]))
                    continue
                kws.append(("**", inner))
            else:
                kws.append((k.arg, T(k.value)))
        kwd = dict(kws)
        f = e.func
        # ---- method-style calls
        if isinstance(f, ast.Attribute):
            recv_node = f.value
            m = f.attr
            recv = T(recv_node)
            rh = c.head_of(recv)
            if m == "__class__":
                return self._new(c.type_of(recv) or "?", pos, kws, base=recv)
            is_module = rh and rh[0] == "sym" and c.type_of(recv) is None and \
                not rh[1].startswith(("param:", "self", "localfn:", "fn:", "cls"))
            if not is_module:
                return self._method_call(recv, m, pos, kws, star)
            fname = f"{rh[1]}.{m}"
        else:
            fr = T(f)
            fname = self._fname(fr)
            if fname is None:
                h = c.head_of(fr)
                if h and h[0] == "gphi" and self.exact and not star:
                    # `f = g if c else h; f(x)` is `g(x) if c else h(x)`: the call distributes over the alternatives of the callee
                    ar = c.args_of(fr)
                    alts = []
                    ok = True
                    for i in range(0, len(ar), 2):
                        fn_i = self._fname(ar[i + 1])
                        if fn_i is None:
                            ok = False
                            break
                        alts.append((ar[i], self._func_call(fn_i, list(pos), list(kws), dict(kws), star)))
                    if ok and alts:
                        return self._mk_gphi(alts)
                if h and h[0] == "classof":
                    return self._new(c.type_of(c.args_of(fr)[0]) or "?", pos, kws, base=c.args_of(fr)[0])
                if h and h[0] == "call" and h[1] == "getattr" and len(c.args_of(fr)) == 2:
                    # getattr(obj, name)(...)
                    return c.mk(("call", "dyn", len(pos), tuple(k for k, _ in kws)), [fr] + pos + [v for _, v in kws])
                return c.mk(("call", "dyn", len(pos), tuple(k for k, _ in kws)), [fr] + pos + [v for _, v in kws])
        return self._func_call(fname, pos, kws, kwd, star)

    # positional parameters of library functions that are commonly written either way (f(a, 0) / f(a, axis=0))
    EXT_SIGS = {
        "np.zeros": ["shape", "dtype"], "np.ones": ["shape", "dtype"], "np.empty": ["shape", "dtype"],
        "np.full": ["shape", "fill_value", "dtype"], "np.zeros_like": ["a", "dtype"], "np.ones_like": ["a", "dtype"],
        "np.empty_like": ["prototype", "dtype"], "np.full_like": ["a", "fill_value", "dtype"],
        "np.array": ["object", "dtype"], "np.asarray": ["a", "dtype"], "np.linspace": ["start", "stop", "num", "endpoint"],
        "np.allclose": ["a", "b", "rtol", "atol"], "np.isclose": ["a", "b", "rtol", "atol"],
        "np.sum": ["a", "axis"], "np.mean": ["a", "axis"], "np.cumsum": ["a", "axis"], "np.prod": ["a", "axis"],
        "np.max": ["a", "axis"], "np.min": ["a", "axis"], "np.any": ["a", "axis"], "np.all": ["a", "axis"],
        "np.stack": ["arrays", "axis"], "np.concatenate": ["arrays", "axis"], "np.pad": ["array", "pad_width", "mode"],
        "np.reshape": ["a", "newshape"], "np.transpose": ["a", "axes"], "np.rot90": ["m", "k", "axes"],
        "np.expand_dims": ["a", "axis"], "np.squeeze": ["a", "axis"], "np.moveaxis": ["a", "source", "destination"],
        "np.flip": ["m", "axis"], "np.roll": ["a", "shift", "axis"], "np.take": ["a", "indices", "axis"],
        "np.diff": ["a", "n", "axis"], "np.gradient": None, "np.cross": ["a", "b"], "np.dot": ["a", "b"],
        "np.linalg.norm": ["x", "ord", "axis"], "np.full_like ": None,
        ".create_dataset": ["name", "shape", "dtype", "data"], ".sum": ["axis"], ".mean": ["axis"], ".astype": ["dtype"],
        ".squeeze": ["axis"], ".transpose": None, ".reshape": None, ".max": ["axis"], ".min": ["axis"], ".any": ["axis"],
        ".all": ["axis"], ".cumsum": ["axis"],
    }

    def _canon_args(self, names, pos, kws, star=False, force=False):
        """arguments bound to the parameter names (all as keywords): f(a, 0) and f(a, axis=0) are one call"""
        if not (self.exact or force) or star or names is None or any(k == "**" for k, _ in kws) or len(pos) > len(names):
            return pos, kws
        if any((self.ctx.head_of(x) or ("",))[0] == "star" for x in pos):
            return pos, kws
        bound = [(names[i], p_) for i, p_ in enumerate(pos)]
        if {k for k, _ in bound} & {k for k, _ in kws}:
            return pos, kws
        return [], bound + list(kws)

    def _repo_params(self, fi, skip_first):
        a = fi.node.args
        names = [x.arg for x in a.posonlyargs + a.args]
        return names[1:] if skip_first else names

    def _new(self, cls, pos, kws, base=None):
        c = self.ctx
        if cls != "?":
            init = self.repo.resolve_method(cls, "__init__")
            if init is None and cls in self.repo.classes:
                # a mix-in without constructor (`cls(...)` in _FieldIO_HDF5): the constructor of the one class built on it
                subs = [q for q in self.repo.classes if q != cls and cls in self.repo.mro(q)
                        and self.repo.resolve_method(q, "__init__") is not None]
                inits = {self.repo.resolve_method(q, "__init__").qual for q in subs}
                if len(inits) == 1:
                    init = self.repo.resolve_method(subs[0], "__init__")
            if init is not None:
                # constructor arguments are bound to their parameters in every mode: Field(mesh, 3, v) IS
                # Field(mesh=mesh, nvdim=3, value=v)
                pos, kws = self._canon_args(self._repo_params(init, True), pos, kws, force=True)
        kws = sorted(kws, key=lambda kv: kv[0])
        return c.mk(("new", cls, tuple(k for k, _ in kws)), pos + [v for _, v in kws], cls if cls != "?" else None)

    def _inline_value(self, fi, pos, kws, star, recv=None, parent=None, parent_at=None):
        """term of a call to a helper the rules do not know: the value of its single `return`, with the parameters bound
        to the arguments (local assignments inside the helper are followed).  None when the helper has another shape."""
        if star or any(k == "**" for k, _ in kws):
            return None
        node = fi.node
        rets = [st for st in _walk_own(node) if isinstance(st, ast.Return)]
        if len(rets) != 1 or rets[0].value is None or any(isinstance(st, (ast.Yield, ast.YieldFrom)) for st in ast.walk(node)):
            return None
        a = node.args
        if a.vararg or a.kwarg or a.posonlyargs:
            return None
        names = [x.arg for x in a.args]
        bound = {}
        if recv is not None:
            if not names:
                return None
            bound[names[0]] = recv
            names = names[1:]
        if len(pos) > len(names):
            return None
        for n_, t_ in zip(names, pos):
            bound[n_] = t_
        for k_, t_ in kws:
            if k_ not in names and k_ not in [x.arg for x in a.kwonlyargs] or k_ in bound:
                return None
            bound[k_] = t_
        key = ("inline", fi.qual, tuple(sorted((k, v.key()) for k, v in bound.items())), self.alias_mode)
        if key in self._cache:
            return self._cache[key]
        if key in self._stack or len(self._stack) > 40:
            return None
        sub = Evaluator(self.repo, fi, self.ctx, self_type=self.self_type if recv is not None else None, expand=self.expand,
                        parent=parent, parent_at=parent_at)
        sub.alias_mode = self.alias_mode
        sub.exact = self.exact
        # defaults of the parameters that were not passed
        defaults = dict(zip([x.arg for x in a.args][len(a.args) - len(a.defaults):], a.defaults))
        defaults.update({x.arg: d for x, d in zip(a.kwonlyargs, a.kw_defaults) if d is not None})
        for n_ in list(names) + [x.arg for x in a.kwonlyargs]:
            if n_ not in bound:
                if n_ not in defaults:
                    return None
                bound[n_] = self._t(defaults[n_], None, None)
        sub.param_override = dict(bound)
        self._stack.append(key)
        self._foreign.append(set())
        try:
            res = sub.term(rets[0].value, at=rets[0])
        except AnalysisError:
            res = None
        finally:
            self._stack.pop()
            self._foreign.pop()
        self._cache[key] = res
        return res

    def _func_call(self, fname, pos, kws, kwd, star):
        c = self.ctx
        if fname.startswith("localfn:"):
            q = f"{self.func.qual}.{fname[8:]}"
            # (exact mode - the comparison of two forms of one function - looks through every local helper, so that a
            # closure and the module-level function it was moved to are both their returned expression)
            if q in self.repo.funcs and (self.repo.is_new_function(q) or self.exact):
                res = self._inline_value(self.repo.funcs[q], pos, kws, star, parent=self, parent_at=self._cur_at)
                if res is not None:
                    return res
        if fname.startswith("fn:") and self.repo.is_new_function(fname[3:]):
            res = self._inline_value(self.repo.funcs[fname[3:]], pos, kws, star)
            if res is not None:
                return res
        if fname in ("self", ) or fname.startswith("param:cls"):
            pass
        if fname == "cls":      # cls(...) inside a classmethod
            return self._new(self.self_type or "?", pos, kws)
        if fname == "self" and self.self_type:
            return c.mk(("call", f"{self.self_type.split('.')[-1]}.__call__", len(pos) + 1, ()),
                        [self._sym("self", self.self_type)] + pos)
        if fname in ("df.Field", "df.Mesh", "df.Region", "df.Line", "df.FieldRotator"):
            return self._new(CLASS_OF[fname[3:]], pos, kws)
        if fname.startswith("cls:"):
            return self._new(fname[4:], pos, kws)
        if self.exact and fname in ("tuple", "list") and len(pos) == 1 and not star and not kws and \
                (c.head_of(pos[0]) or ("",))[0] in ("tuple", "list"):
            return c.mk((fname,), list(c.args_of(pos[0])))        # tuple([a, b]) is (a, b)
        if fname == "dict" and self.exact and not star and not pos and kws and all(k != "**" for k, _ in kws):
            # dict(a=x, b=y) is {"a": x, "b": y} (insertion order = keyword order)
            return c.mk(("dict",), [c.mk(("item",), (c.mk(("str", k)), v_)) for k, v_ in kws])
        if fname == "dict" and self.exact and not star and not kws and len(pos) == 1:
            # dict(zip(A, B)) is {a: b for a, b in zip(A, B)}
            hz = c.head_of(pos[0])
            if hz and hz[0] == "call" and hz[1] == "zip" and len(c.args_of(pos[0])) == 2 and not (len(hz) > 3 and hz[3]):
                za, zb = c.args_of(pos[0])
                return c.mk(("dictcomp", 1), [c.mk(("item",), (self._each(za), self._each(zb))),
                                              c.mk(("gen", 0), [self._loop_base(pos[0])])])
        if fname == "len" and len(pos) == 1 and not star and not kws and self.exact:
            h0 = c.head_of(pos[0])
            if h0 and h0[0] == "str":
                return c.const(len(h0[1]))          # len("ft_") is 3
            if h0 and h0[0] in ("tuple", "list") and not any((c.head_of(x) or ("",))[0] == "star" for x in c.args_of(pos[0])):
                return c.const(len(c.args_of(pos[0])))
            if h0 and h0[0] == "set" and not c.args_of(pos[0]):
                return c.const(0)
        if fname in ("all", "any") and len(pos) == 1 and not star and not kws and self.exact:
            h0 = c.head_of(pos[0])
            if h0 and h0[0] in ("list", "tuple") and len(h0) == 1 and 1 <= len(c.args_of(pos[0])) <= 4 and \
                    not any((c.head_of(x) or ("",))[0] == "star" for x in c.args_of(pos[0])) and \
                    all(self._is_truth_value(x) for x in c.args_of(pos[0])):
                # all([p, q]) is p and q - for elements that are truth values (of other elements all() returns bool(...) of them)
                return self._bool("and" if fname == "all" else "or", list(c.args_of(pos[0])))
        if fname in ("set", "list", "tuple", "sorted") and len(pos) == 1 and not star and not kws and self.exact:
            h0 = c.head_of(pos[0])
            if h0 and h0[0] in ("tuple", "list", "set") and not c.args_of(pos[0]):
                return c.mk((("set" if fname == "set" else "tuple" if fname == "tuple" else "list"),), [])   # set([]) is empty
            if fname in ("list", "tuple") and h0 and h0[0] in ("tuple", "list") and len(h0) == 1 and \
                    not any((c.head_of(x) or ("",))[0] == "star" for x in c.args_of(pos[0])):
                return c.mk((fname,), list(c.args_of(pos[0])))      # list((a, b)) is [a, b]
        if fname == "len" and len(pos) == 1 and not star and not kws and self.exact and \
                (c.head_of(pos[0]) or ("",))[0] == "seqcomp":
            pos = [self._loop_base(pos[0])]
        if self.exact and len(pos) >= 1 and not star and fname in ("list", "sorted", "tuple", "set", "len", "enumerate", "frozenset"):
            # iterating a mapping is iterating its keys; its views have its length
            h0 = c.head_of(pos[0])
            if h0 and h0[0] == "call" and len(c.args_of(pos[0])) == 1 and not (len(h0) > 3 and h0[3]) and \
                    (h0[1] == ".keys" or (fname == "len" and h0[1] in (".values", ".items"))):
                pos = [c.args_of(pos[0])[0]] + pos[1:]
        if fname == "len" and len(pos) == 1 and not star and not kws and self.exact:
            # a comprehension without filter has as many elements as what it runs over
            pos = [self._loop_base(pos[0])] if (c.head_of(pos[0]) or ("",))[0] == "seqcomp" else pos
        if fname == "isinstance" and len(pos) == 2 and not star and not kws and os.environ.get("VERIF_ISINSTANCE_SPLIT", "1") == "1":
            # isinstance(x, (A, B)) is isinstance(x, A) or isinstance(x, B): one form for both spellings
            h2 = c.head_of(pos[1])
            if h2 and h2[0] == "tuple" and len(h2) == 1 and len(c.args_of(pos[1])) >= 2 and \
                    not any((c.head_of(x) or ("",))[0] == "star" for x in c.args_of(pos[1])):
                return self._bool("or", [self._func_call("isinstance", [pos[0], t_], [], {}, False) for t_ in c.args_of(pos[1])])
        if fname == "isinstance" and len(pos) == 2 and not star and not kws:
            # the order of the accepted types is immaterial: canonical order
            h2 = c.head_of(pos[1])
            if h2 and h2[0] == "tuple":
                el = sorted(c.args_of(pos[1]), key=lambda r: r.key())
                uniq = []
                for x in el:
                    if not any(c.eq(x, u) for u in uniq):
                        uniq.append(x)
                pos = [pos[0], c.mk(h2, uniq) if len(h2) == 1 else pos[1]]
            if self.exact:
                # the type of a literal / freshly built container is known; over gated alternatives the test is decided
                # per alternative
                h1 = c.head_of(pos[0])
                if h1 and h1[0] == "gphi":
                    ar = c.args_of(pos[0])
                    tests = []
                    for i in range(0, len(ar), 2):
                        sub = self._isinstance_of(ar[i + 1], pos[1])
                        tests.append(self._bool("and", [ar[i], sub]))
                    return self._bool("or", tests)
                known = self._isinstance_known(pos[0], pos[1])
                if known is not None:
                    return c.mk(("const", known))
        if not star and not kws:
            if fname in ARITH_FUNCS and len(pos) in (1, 2) and self.exact:
                op = ARITH_FUNCS[fname]
                if op == "neg" and len(pos) == 1:
                    return c.mk(("fneg",), (pos[0],))
                if len(pos) == 2 and op in ("+", "-", "*", "/"):
                    if pos[0].is_const() and pos[1].is_const():
                        return c.mk(("fbin", {"+": "Add", "-": "Sub", "*": "Mult", "/": "Div"}[op]), (pos[0], pos[1]))
                    return self._binop({"+": ast.Add, "-": ast.Sub, "*": ast.Mult, "/": ast.Div}[op](), pos[0], pos[1])
            elif fname in ARITH_FUNCS and len(pos) in (1, 2):
                op = ARITH_FUNCS[fname]
                if op == "neg" and len(pos) == 1:
                    return r_neg(pos[0])
                if op == "pos" and len(pos) == 1:
                    return pos[0]
                if len(pos) == 2:
                    return {"+": r_add, "-": r_sub, "*": r_mul, "/": r_div}[op](pos[0], pos[1])
            if fname in CMP_FUNCS and len(pos) == 2:
                return self._cmpn(CMP_FUNCS[fname], pos[0], pos[1])
            if fname in BOOL_FUNCS and len(pos) == 2:
                return self._bool(BOOL_FUNCS[fname], pos)
            if fname in NOT_FUNCS and len(pos) == 1:
                return self._not(pos[0])
            if fname in TRANSPARENT_FUNCS and len(pos) == 1 and not self.alias_mode and \
                    not (self._keep_seq and fname in ("tuple", "list")):
                return pos[0]
            if fname == "np.power" and len(pos) == 2 and not self.exact:
                k = pos[1].const()
                if k is not None and k.denominator == 1 and abs(k) <= 8:
                    return r_pow(pos[0], int(k))
            if fname == "abs" and len(pos) == 1:
                return c.mk(("call", "np.abs", 1, ()), pos)
            if fname == "np.absolute" and len(pos) == 1:
                return c.mk(("call", "np.abs", 1, ()), pos)
            if fname == "np.conj" and len(pos) == 1:
                return c.mk(("call", "np.conjugate", 1, ()), pos)
            if fname == "getattr" and len(pos) == 2:
                h = c.head_of(pos[1])
                if h and h[0] == "str":
                    return self._attr(pos[0], h[1])
        if fname in TRANSPARENT_FUNCS and len(pos) == 1 and set(kwd) <= {"dtype"} and not star \
                and not self.alias_mode and not (self._keep_seq and fname in ("tuple", "list")):
            dt = kwd.get("dtype")
            if dt is None or self._is_float_dtype(dt):
                return pos[0]
            return c.mk(("call", "astype", 2, ()), (pos[0], dt))
        pos, kws = self._canon_args(self.EXT_SIGS.get(fname), pos, kws, star)
        if self.exact and fname in self.EXT_DEFAULTS and not star:
            # a keyword spelled out with its documented default is the call without it (np.isclose(x, 0, atol=1e-8))
            kws = [(k, v_) for k, v_ in kws if not (k in self.EXT_DEFAULTS[fname] and
                                                   v_.key() == self._default_term(self.EXT_DEFAULTS[fname][k]).key())]
        kws = sorted(kws, key=lambda kv: kv[0])
        return c.mk(("call", fname, len(pos), tuple(k for k, _ in kws)), pos + [v for _, v in kws])

    # documented defaults of library functions (numpy reference): trusted facts, listed in DESIGN.md
    EXT_DEFAULTS = {
        "np.isclose": {"rtol": "1e-05", "atol": "1e-08", "equal_nan": "False"},
        "np.allclose": {"rtol": "1e-05", "atol": "1e-08", "equal_nan": "False"},
        "np.stack": {"axis": "0"}, "np.concatenate": {"axis": "0"},
        "np.sum": {"axis": "None"}, "np.mean": {"axis": "None"}, "np.prod": {"axis": "None"}, "np.max": {"axis": "None"},
        "np.min": {"axis": "None"}, "np.any": {"axis": "None"}, "np.all": {"axis": "None"},
        "np.rot90": {"k": "1", "axes": "(0, 1)"}, "np.linspace": {"endpoint": "True"}, "np.diff": {"n": "1", "axis": "-1"},
        "np.roll": {"axis": "None"}, "np.flip": {"axis": "None"}, "np.squeeze": {"axis": "None"},
        "np.transpose": {"axes": "None"},
    }

    def _default_term(self, text):
        cache = self.__dict__.setdefault("_default_terms", {})
        if text not in cache:
            cache[text] = self.term(ast.parse(text, mode="eval").body)
        return cache[text]

    def _is_float_dtype(self, dt):
        h = self.ctx.head_of(dt)
        if not h:
            return False
        if h[0] == "sym" and h[1] in ("float", "np.float64", "np.float_", "np.double"):
            return True
        if h[0] == "str" and h[1] in ("float", "float64"):
            return True
        return False

    def _method_call(self, recv, m, pos, kws, star):
        c = self.ctx
        typ = c.type_of(recv)
        kwd = dict(kws)
        if not star and not self.alias_mode:
            if m in TRANSPARENT_METHODS and not pos and not kws:
                return recv
            if m == "astype" and len(pos) == 1 and not kws:
                if self._is_float_dtype(pos[0]):
                    return recv
                return c.mk(("call", "astype", 2, ()), (recv, pos[0]))
            if m == "__mul__" and len(pos) == 1 and not kws:
                return r_mul(recv, pos[0])
            if m == "conj" and not pos and not kws:
                m = "conjugate"
        h = c.head_of(recv)
        if h and h[0] == "classof" and False:
            pass
        if typ is not None:
            # a method the rules do not know (an extracted helper): the value of its single return
            mi = self.repo.resolve_method(typ, m)
            if mi is not None and self.repo.is_new_function(mi.qual) and mi.kind == "method":
                res = self._inline_value(mi, pos, kws, star, recv=recv)
                if res is not None:
                    return res
            if mi is not None and self.repo.is_new_function(mi.qual) and mi.kind == "staticmethod":
                res = self._inline_value(mi, pos, kws, star)           # self._helper(a, b) on a static helper: no receiver
                if res is not None:
                    return res
            # classmethod-style constructor via self.__class__ handled in _call; here ordinary methods
            ret = METHOD_RET.get((typ, m))
            if mi is not None and mi.kind in ("method", "classmethod", "staticmethod"):
                pos, kws = self._canon_args(self._repo_params(mi, mi.kind != "staticmethod"), pos, kws, star)
            kws2 = sorted(kws, key=lambda kv: kv[0])
            return c.mk(("call", f"{typ.split('.')[-1]}.{m}", len(pos) + 1, tuple(k for k, _ in kws2)),
                        [recv] + pos + [v for _, v in kws2], ret)
        names = self.EXT_SIGS.get(f".{m}")
        if names is None and self.exact and f".{m}" not in self.EXT_SIGS:
            names = self._unique_method_params(m)
        pos, kws = self._canon_args(names, pos, kws, star)
        kws2 = sorted(kws, key=lambda kv: kv[0])
        return c.mk(("call", f".{m}", len(pos) + 1, tuple(k for k, _ in kws2)), [recv] + pos + [v for _, v in kws2])

    def _unique_method_params(self, m):
        """parameter names of the package's only method called `m` (plain signature), for a call on a receiver whose class is
        not known: `mesh.region2slices(r)` and `mesh.region2slices(region=r)` are one call.  None when the name is not unique
        or the signature has * / ** / positional-only parameters."""
        cache = self.repo.__dict__.setdefault("_unique_method_params", {})
        if m not in cache:
            found = [f for q, f in self.repo.funcs.items() if f.parent is None and f.cls is not None and f.node.name == m
                     and getattr(f, "kind", "method") == "method"]
            names = None
            if len(found) == 1 and not m.startswith("__"):
                a = found[0].node.args
                if not (a.vararg or a.kwarg or a.posonlyargs):
                    names = [x.arg for x in a.args][1:]
            cache[m] = names
        return cache[m]


def _walk_own(fn_node):
    """statements and expressions of a function, not those of functions nested in it"""
    st = list(fn_node.body)
    while st:
        x = st.pop()
        yield x
        for ch in ast.iter_child_nodes(x):
            if isinstance(ch, (ast.FunctionDef, ast.AsyncFunctionDef, ast.ClassDef, ast.Lambda)):
                continue
            st.append(ch)


def _comp_targets(target, path=()):
    out = []
    if isinstance(target, ast.Name):
        out.append((target.id, "iter", (None, path)))
    elif isinstance(target, (ast.Tuple, ast.List)):
        for i, el in enumerate(target.elts):
            out += _comp_targets(el, path + (i,))
    elif isinstance(target, ast.Starred):
        out += _comp_targets(target.value, path + ("*",))
    return out
