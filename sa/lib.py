"""Rule helper library: function views, guards (E2), constructor matrix (E4),
write sites (E6), alias / effect summaries (E3)."""
import ast

from .model import AnalysisError, body_nodoc
from .cfg import walk_stmts, walk_expr, always_raises, terminates
from .terms import Evaluator, Ctx, Rat

_FV_CACHE = {}


class CtorSite:
    def __init__(self, fv, call, stmt, cls, term):
        self.fv = fv
        self.call = call
        self.stmt = stmt
        self.cls = cls
        self.term = term
        self.args = {}      # param name -> Rat
        self.unbound_kw = []
        self.has_starstar = False

    def arg(self, name):
        return self.args.get(name)

    def __repr__(self):
        return f"<ctor {self.cls} in {self.fv.f.qual} line {self.call.lineno}>"


_OBSERVER_ROOTS = ("logging", "logger", "log", "_logger", "_log", "print")


def is_alias_binding(st):
    """`mesh = self.mesh`, `region = self.mesh.region`: a local name for an attribute chain of a plain name - no computation,
    no effect, no refusal; where a rule counts the top-level statements of a function it is not one of them"""
    if not (isinstance(st, ast.Assign) and len(st.targets) == 1 and isinstance(st.targets[0], ast.Name)):
        return False
    x = st.value
    if not isinstance(x, ast.Attribute):
        return False
    while isinstance(x, ast.Attribute):
        x = x.value
    return isinstance(x, ast.Name)


def is_observer(st):
    """an expression statement that only reports: `logging.debug(...)`, `logging.getLogger(..).info(...)`, `logger.warning(...)`,
    `print(...)`"""
    if not (isinstance(st, ast.Expr) and isinstance(st.value, ast.Call)):
        return False
    f = st.value.func
    for _ in range(6):
        if isinstance(f, ast.Attribute):
            f = f.value
        elif isinstance(f, ast.Call):
            f = f.func
        else:
            break
    if not (isinstance(f, ast.Name) and f.id in _OBSERVER_ROOTS):
        return False
    # its arguments only format values (no call that could do anything else)
    call = st.value
    for a in list(call.args) + [k.value for k in call.keywords]:
        for n in ast.walk(a):
            if isinstance(n, ast.Call) and not (isinstance(n.func, ast.Name) and n.func.id in ("str", "repr", "len", "type", "id")):
                return False
            if isinstance(n, (ast.NamedExpr, ast.Await, ast.Yield, ast.YieldFrom)):
                return False
    return True


class FV:
    """A function together with its CFG, evaluator and convenience queries."""

    def __init__(self, repo, qual, param_types=None, ctx=None, self_type=None, alias_mode=False,
                 parent=None, parent_at=None):
        self.repo = repo
        self.f = repo.func(qual)
        if ctx is None and parent is not None:
            ctx = parent.ctx          # closure variables are resolved in the parent: one atom table
        self.ev = Evaluator(repo, self.f, ctx or Ctx(), self_type=self_type, param_types=param_types,
                            parent=parent.ev if parent else None, parent_at=parent_at)
        self.ev.alias_mode = alias_mode
        self.cfg = self.ev.cfg
        self.ctx = self.ev.ctx
        self._full_body = body_nodoc(self.f.node)
        # what the rules look at: the statements without pure observers (logging / print calls) - an added log line is not a
        # computation, an effect on the objects or a refusal, and no property speaks about it
        self.body = [s_ for s_ in self._full_body if not is_observer(s_) and not is_alias_binding(s_)]
        self._owner = None

    # ------------------------------------------------------------------ basics
    def stmts(self):
        if self.ev.exact:
            return list(walk_stmts(self._full_body))        # the comparison of two forms sees everything
        return [s_ for s_ in walk_stmts(self._full_body) if not is_observer(s_)]

    def returns(self):
        return [s for s in self.stmts() if isinstance(s, ast.Return)]

    def raises(self):
        out = []
        for s in self.stmts():
            if isinstance(s, ast.Raise):
                name = None
                if s.exc is not None:
                    e = s.exc.func if isinstance(s.exc, ast.Call) else s.exc
                    name = ast.unparse(e).split(".")[-1]
                out.append((s, name))
        return out

    def owner_map(self):
        """id(expr node) -> owning statement (the statement whose CFG node evaluates it)"""
        if self._owner is not None:
            return self._owner
        own = {}

        def mark(expr, st):
            if expr is None:
                return
            for n in walk_expr(expr):
                own[id(n)] = st
        for st in self.stmts():
            if isinstance(st, (ast.If, ast.While)):
                mark(st.test, st)
            elif isinstance(st, (ast.For, ast.AsyncFor)):
                mark(st.iter, st)
                mark(st.target, st)
            elif isinstance(st, (ast.With, ast.AsyncWith)):
                for it in st.items:
                    mark(it.context_expr, st)
                    mark(it.optional_vars, st)
            elif isinstance(st, ast.Try):
                for h in st.handlers:
                    mark(h.type, st)
            elif isinstance(st, (ast.FunctionDef, ast.AsyncFunctionDef, ast.ClassDef)):
                pass
            else:
                mark(st, st)
        self._owner = own
        return own

    def owner(self, expr):
        st = self.owner_map().get(id(expr))
        if st is None:
            raise AnalysisError(f"{self.f.qual}: expression has no owning statement: {ast.unparse(expr)[:50]}")
        return st

    def calls(self, pred=None):
        """[(Call node, owning stmt)] in source order"""
        out = []
        own = self.owner_map()
        for st in self.stmts():
            exprs = []
            if isinstance(st, (ast.If, ast.While)):
                exprs = [st.test]
            elif isinstance(st, (ast.For, ast.AsyncFor)):
                exprs = [st.iter]
            elif isinstance(st, (ast.With, ast.AsyncWith)):
                exprs = [it.context_expr for it in st.items]
            elif isinstance(st, (ast.Try, ast.FunctionDef, ast.AsyncFunctionDef, ast.ClassDef)):
                exprs = []
            else:
                exprs = [st]
            for e in exprs:
                for n in walk_expr(e):
                    if isinstance(n, ast.Call) and (pred is None or pred(n)):
                        out.append((n, st))
        out.sort(key=lambda cs: (cs[0].lineno, cs[0].col_offset))
        return out

    def comp_chain(self, expr):
        """enclosing comprehensions / lambdas of an expression node, outermost first"""
        if not hasattr(self, "_comp_parent"):
            cp = {}
            for st in self.stmts():
                roots = []
                if isinstance(st, (ast.If, ast.While)):
                    roots = [st.test]
                elif isinstance(st, (ast.For, ast.AsyncFor)):
                    roots = [st.iter]
                elif isinstance(st, (ast.With, ast.AsyncWith)):
                    roots = [it.context_expr for it in st.items]
                elif isinstance(st, (ast.Try, ast.FunctionDef, ast.AsyncFunctionDef, ast.ClassDef)):
                    roots = []
                else:
                    roots = [st]

                def rec(n, chain):
                    cp[id(n)] = chain
                    if isinstance(n, (ast.ListComp, ast.SetComp, ast.GeneratorExp, ast.DictComp)):
                        # first iterable is evaluated in the enclosing scope
                        for gi, g in enumerate(n.generators):
                            rec(g.iter, chain + [(n, gi)] if gi > 0 else chain)
                            for c_ in g.ifs:
                                rec(c_, chain + [(n, gi + 1)])
                            rec(g.target, chain + [(n, gi + 1)])
                        full = chain + [(n, len(n.generators))]
                        if isinstance(n, ast.DictComp):
                            rec(n.key, full)
                            rec(n.value, full)
                        else:
                            rec(n.elt, full)
                        return
                    if isinstance(n, ast.Lambda):
                        rec(n.body, chain + [(n, 0)])
                        return
                    for ch in ast.iter_child_nodes(n):
                        if isinstance(ch, (ast.FunctionDef, ast.AsyncFunctionDef, ast.ClassDef)):
                            continue
                        rec(ch, chain)
                for r_ in roots:
                    rec(r_, [])
            self._comp_parent = cp
        return self._comp_parent.get(id(expr), [])

    def term(self, expr, at=None, via=None):
        if at is None:
            at = self.owner(expr)
        chain = self.comp_chain(expr)
        if not chain:
            return self.ev.term(expr, at=at, via=via)
        # rebuild the comprehension bindings that are in scope at expr
        from .terms import _comp_targets
        ev = self.ev
        atn = self.cfg.node(at) if isinstance(at, ast.AST) else at
        restrict = None
        if via:
            vn = [self.cfg.node(x) if isinstance(x, ast.AST) else x for x in via]
            restrict = frozenset(self.cfg.via_restriction(vn))
        for node, upto in chain:
            if isinstance(node, ast.Lambda):
                depth = sum(1 for n in ev.bound if n.startswith("\x00lam"))
                names = [a.arg for a in node.args.posonlyargs + node.args.args]
                env = {n: self.ctx.mk(("lam", depth, i)) for i, n in enumerate(names)}
                env["\x00lam%d" % depth] = self.ctx.const(0)
                ev = ev.with_bound(env)
                continue
            for g in node.generators[:upto]:
                it = ev._t(g.iter, atn, restrict)
                env = {}
                for name, how, (value, path) in _comp_targets(g.target):
                    env[name] = ev._iter_elem(it, path)
                ev = ev.with_bound(env)
        return ev._t(expr, atn, restrict)

    def spec(self, text, at=None, env=None):
        return self.ev.spec(text, env=env, at=at)

    def show(self, t):
        return self.ctx.show(t) if t is not None else "<absent>"

    def eq(self, a, b):
        if a is None or b is None:
            return False
        return self.ctx.eq(a, b)

    def src(self, node):
        return ast.unparse(node)[:110]

    # ------------------------------------------------------------------ constructor matrix (E4)
    def ctor_sites(self, cls=None, via=None):
        out = []
        for call, st in self.calls():
            t = self.term(call, at=st, via=via)
            h = self.ctx.head_of(t)
            if not h or h[0] != "new":
                continue
            c = h[1]
            if cls is not None and c != cls:
                continue
            site = CtorSite(self, call, st, c, t)
            init = self.repo.resolve_method(c, "__init__") if c != "?" else None
            pnames = []
            if init is not None:
                a = init.node.args
                pnames = [x.arg for x in a.posonlyargs + a.args][1:]
                kwonly = [x.arg for x in a.kwonlyargs]
            else:
                kwonly = []
            i = 0
            for a_ in call.args:
                if isinstance(a_, ast.Starred):
                    site.has_starstar = True
                    continue
                if i < len(pnames):
                    site.args[pnames[i]] = self.term(a_, at=st, via=via)
                i += 1
            for k in call.keywords:
                if k.arg is None:
                    site.has_starstar = True
                    continue
                v = self.term(k.value, at=st, via=via)
                if init is not None and k.arg not in pnames and k.arg not in kwonly:
                    site.unbound_kw.append(k.arg)
                site.args[k.arg] = v
            out.append(site)
        return out

    # ------------------------------------------------------------------ guards (E2)
    def guard(self, cond_text, exc=("ValueError",), before="exit", env=None, allow_superset=True):
        """Is there a `raise <exc>` under a condition equal to cond_text that every path to `before`
        must have passed (and survived)?  -> (ok, detail)"""
        targets = self._targets(before)
        cands = []
        matched = {}          # index of a disjunct of the wanted condition -> description of the raise that realises it
        nparts = None
        for r, name in self.raises():
            if exc is not None and name not in exc:
                continue
            par = self.cfg.parent.get(id(r))
            if not par or not isinstance(par[0], ast.If):
                continue
            ifst, fld = par
            # the raise must be the (unconditional) end of that branch
            branch = ifst.body if fld == "body" else ifst.orelse
            if not always_raises(branch):
                continue
            pol = fld == "body"
            cond = self.ev.term(ifst.test, at=ifst)
            if not pol:
                cond = self.ev._not(cond)
            try:
                want = self.ev.spec(cond_text, env=env, at=ifst)
            except AnalysisError:
                continue
            wh = self.ctx.head_of(want)
            wparts = list(self.ctx.args_of(want)) if wh and wh[0] == "or" else [want]
            nparts = len(wparts) if nparts is None else nparts
            ch = self.ctx.head_of(cond)
            cparts = list(self.ctx.args_of(cond)) if ch and ch[0] == "or" else [cond]
            # which disjuncts of the wanted condition does this raise cover?  (a guard may test several at once with `or`,
            # or the disjuncts may be spread over consecutive guards - the canonical form splits `or` guards)
            covers = [j for j, w in enumerate(wparts) if any(self.ctx.eq(w, c) for c in cparts)]
            exact = self.ctx.eq(cond, want)
            if not exact and (not covers or (not allow_superset and len(cparts) > 1)):
                cands.append(f"line {r.lineno}: {self.show(cond)}")
                continue
            if exact:
                covers = list(range(len(wparts)))
            tnode = self.cfg.node(ifst)
            label = "F" if pol else "T"
            if all(self._must_leave_by(tnode, label, t) for t in targets):
                for j in covers:
                    matched.setdefault(j, f"raise {name} under `{self.src(ifst.test)}` (line {ifst.lineno})")
                if len(wparts) == nparts and len(matched) == nparts:
                    return True, "; ".join(matched[j] for j in sorted(matched)) + " precedes the effect on all paths"
            else:
                cands.append(f"line {r.lineno}: condition matches but does not dominate the effect")
        return False, f"no `raise {'/'.join(exc or ('*',))}` under `{cond_text}` dominating the effect; candidates: {cands[:4]}"

    def _targets(self, before):
        if before == "exit":
            return [self.cfg.exit]
        if isinstance(before, (list, tuple)):
            return [self.cfg.node(b) if isinstance(b, ast.AST) else b for b in before]
        return [self.cfg.node(before) if isinstance(before, ast.AST) else before]

    def _must_leave_by(self, tnode, label, target):
        """every path entry->target passes tnode and leaves by edge `label`"""
        cfg = self.cfg
        if not cfg.dominates(tnode, target):
            return False
        keep = [s for s in cfg.succ[tnode.id] if cfg.edge_label.get((tnode.id, s)) == label]
        seen = set()
        st = [cfg.entry.id]
        while st:
            x = st.pop()
            if x in seen:
                continue
            seen.add(x)
            for s in cfg.succ[x]:
                if x == tnode.id and s in keep:
                    continue
                st.append(s)
        return target.id not in seen

    def call_dominates(self, call_stmt, before="exit"):
        n = self.cfg.node(call_stmt)
        return all(self.cfg.dominates(n, t) for t in self._targets(before))

    # ------------------------------------------------------------------ write sites (E6)
    def self_stores(self, recv="self"):
        """[(stmt, attr, value expr or None, kind)] for `recv.attr = v`, `recv.attr op= v`"""
        out = []
        for st in self.stmts():
            tgts = []
            if isinstance(st, ast.Assign):
                for t in st.targets:
                    tgts += _flatten_targets(t)
                val = st.value
            elif isinstance(st, ast.AugAssign):
                tgts = [st.target]
                val = st.value
            elif isinstance(st, ast.AnnAssign) and st.value is not None:
                tgts = [st.target]
                val = st.value
            else:
                continue
            for t in tgts:
                if isinstance(t, ast.Attribute) and isinstance(t.value, ast.Name) and t.value.id == recv:
                    out.append((st, t.attr, val, "aug" if isinstance(st, ast.AugAssign) else "assign"))
        return out


def _flatten_targets(t):
    if isinstance(t, (ast.Tuple, ast.List)):
        out = []
        for e in t.elts:
            out += _flatten_targets(e)
        return out
    if isinstance(t, ast.Starred):
        return _flatten_targets(t.value)
    return [t]


def fv(repo, qual, **kw):
    return FV(repo, qual, **kw)


# ============================================================================ alias / freshness (E3)
FRESH = "FRESH"

# numpy / python callables: does the result share memory with argument 0?
VIEW_FUNCS = {"xarray.DataArray", "np.asarray", "np.asanyarray", "np.expand_dims", "np.squeeze", "np.transpose", "np.reshape",
              "np.rot90", "np.ravel", "np.atleast_1d", "np.atleast_2d", "np.atleast_3d", "np.moveaxis",
              "np.swapaxes", "np.flip", "np.broadcast_to", "np.real", "np.imag", "np.ascontiguousarray"}
VIEW_METHODS = {"to_xarray", "reshape", "transpose", "squeeze", "view", "ravel", "swapaxes", "__getitem__", "diagonal"}
VIEW_ATTRS = {"T", "real", "imag", "flat", "data", "values"}
FRESH_FUNCS = {"np.array", "np.copy", "np.full", "np.zeros", "np.ones", "np.empty", "np.zeros_like",
               "np.ones_like", "np.empty_like", "np.full_like", "np.stack", "np.concatenate", "np.pad",
               "np.cumsum", "np.sum", "np.prod", "np.cross", "np.einsum", "np.dot", "np.isclose", "np.clip",
               "np.abs", "np.angle", "np.linalg.norm", "np.gradient", "np.convolve", "np.arccos", "np.cos",
               "np.sin", "np.arctan2", "np.minimum", "np.maximum", "np.round", "np.floor", "np.ceil",
               "np.remainder", "np.linspace", "np.arange", "np.meshgrid", "np.dstack", "np.apply_along_axis",
               "np.fromiter", "np.argwhere", "np.where", "np.isnan", "np.degrees", "np.mean", "np.diff",
               "np.conjugate", "np.divide", "np.power", "np.multiply", "np.add", "np.subtract",
               "np.logical_and", "np.logical_or", "np.invert", "np.logical_not", "np.sqrt", "np.arcsinh",
               "np.arctan", "np.eye", "np.ndarray", "np.min", "np.max", "np.all", "np.any", "np.shape",
               "spfft.fftn", "spfft.ifftn", "spfft.rfftn", "spfft.irfftn", "spfft.fftshift", "spfft.ifftshift",
               "spfft.fftfreq", "spfft.rfftfreq", "len", "int", "float", "bool", "str", "range", "sorted", "dict",
               "max", "min", "sum", "abs", "round", "isinstance", "tuple", "list", "set", "zip", "enumerate",
               "reversed", "map", "any", "all", "type", "hasattr", "callable", "math.ceil", "math.prod",
               "dir", "h5py.File", "np.tile", "np.repeat", "np.outer", "np.column_stack", "np.hstack", "np.vstack"}
FRESH_METHODS = {"create_dataset", "create_group", "isoformat", "render", "sel", "copy", "astype", "tolist", "item", "sum", "mean", "max", "min", "round", "conjugate",
                 "conj", "cumsum", "prod", "all", "any", "argsort", "tobytes", "index", "keys", "values",
                 "items", "get", "format", "join", "split", "lower", "strip", "startswith", "endswith",
                 "count", "to_numpy", "flatten", "dot", "std", "nonzero", "argmax", "argmin", "pop"}


def alias_term(fvw, expr, at=None, via=None):
    """term in alias mode (copies and conversions are NOT erased)"""
    ev = fvw.ev
    old_mode = getattr(ev, "alias_mode", False)
    ev.alias_mode = True
    try:
        return fvw.term(expr, at=at, via=via)
    finally:
        ev.alias_mode = old_mode


class Alias:
    """roots(term) -> set of root labels the value may share memory with; FRESH if none.
    Unknown callables fail closed with AnalysisError."""

    def __init__(self, repo, summaries=None, allocs=False):
        self.repo = repo
        self.summaries = summaries or {}     # call name -> callable(args roots list, kw roots dict) -> roots
        self.allocs = allocs                 # label fresh allocations "alloc:<atom id>" instead of returning no root

    def roots(self, ctx, t):
        a = t.single_atom()
        if a is None:
            if t.is_const():
                return set()
            return set()          # arithmetic allocates
        head, args = ctx.atoms[a]
        k = head[0]
        if k == "sym":
            n = head[1]
            if n.startswith("param:"):
                return {n}
            if n == "self":
                return {"self"}
            return set()
        if k == "call" and head[1] == "np.positive":
            return set()
        if k in ("const", "str", "fstr", "cmp", "and", "or", "not", "lambda", "index", "exc", "slice",
                 "pow", "binop", "classof", "unbound", "fmt", "concat", "repeat", "rec", "carried", "yield", "yieldfrom"):
            return set()
        if k == "attr":
            base = self.roots(ctx, args[0])
            name = head[1]
            if name in ("attrs", "shape", "dtype", "size", "ndim", "units", "name"):
                return set()          # metadata of an array / DataArray, not its buffer
            return {f"{b}.{name}" for b in base} if base else set()
        if k == "prop":
            name = head[1]
            base = self.roots(ctx, args[0])
            if name in VIEW_ATTRS:
                return base
            typ = ctx.types.get(args[0].single_atom()) if args[0].single_atom() is not None else None
            if typ == "field.Field":
                # properties of Field that build new Field objects
                return {f"{b}.<{name}>" for b in base} if False else set()
            return {f"{b}.{name}" for b in base} if base else set()
        if k == "sub":
            if self._basic_index(ctx, args[1]):
                return self.roots(ctx, args[0])
            return set()
        if k in ("phi",):
            out = set()
            for x in args:
                out |= self.roots(ctx, x)
            return out
        if k == "ifexp":
            return self.roots(ctx, args[1]) | self.roots(ctx, args[2])
        if k in ("tuple", "list", "set", "dict", "item", "star", "dictstar", "seqcomp", "setcomp", "dictcomp", "gen"):
            out = set()
            for x in args:
                out |= {r + "<elem>" if False else r for r in self.roots(ctx, x)}
            return out
        if k in ("iter", "unpack", "with", "store", "mut"):
            return self.roots(ctx, args[0])
        if k == "new":
            return set()
        if k == "fresh":
            return set()
        if k == "method":
            return set()
        if k == "call":
            fname = head[1]
            if fname in self.summaries:
                kwn = head[3] if len(head) > 3 else ()
                npos = len(args) - len(kwn)
                return self.summaries[fname](self, ctx, list(args[:npos]), dict(zip(kwn, args[npos:])))
            if fname.split(".")[0] in ("Field", "Mesh", "Region", "MplField", "FieldRotator", "Line") and "." in fname:
                meth = fname.split(".", 1)[1]
                kwn = head[3] if len(head) > 3 else ()
                if meth == "__call__":
                    return {f"{r}._array" for r in self.roots(ctx, args[0])}
                if "inplace" in kwn:
                    flag = args[len(args) - len(kwn) + kwn.index("inplace")]
                    fh = ctx.head_of(flag)
                    if not (fh and fh[0] == "const" and fh[1] is False):
                        return self.roots(ctx, args[0])
                # every other method of the repository's classes returns a newly constructed object or a scalar
                return {f"alloc:{a}"} if self.allocs else set()
            callee = self._repo_function(fname)
            if callee is not None:
                return self._apply_summary(ctx, callee, head, args)
            if fname in VIEW_FUNCS:
                return self.roots(ctx, args[0]) if args else set()
            if fname in FRESH_FUNCS or fname == "astype":
                return {f"alloc:{a}"} if self.allocs else set()
            if fname.startswith("."):
                m = fname[1:]
                if m in VIEW_METHODS:
                    return self.roots(ctx, args[0])
                if m in FRESH_METHODS:
                    return {f"alloc:{a}"} if self.allocs else set()
                raise AnalysisError(f"alias table: unknown method .{m}()")
            if fname == "dyn":
                return set()
            if fname == "getattr":
                return self.roots(ctx, args[0])
            raise AnalysisError(f"alias table: unknown callable {fname}")
        raise AnalysisError(f"alias: unhandled atom kind {k}")

    _MODULE_ALIASES = {"plot_util": "plotting.util", "dfu": "util.util"}

    def _repo_function(self, fname):
        if fname.startswith("fn:"):
            q = fname[3:]
            return q if q in self.repo.funcs else None
        if "." in fname:
            mod, name = fname.rsplit(".", 1)
            if mod in self._MODULE_ALIASES:
                q = f"{self._MODULE_ALIASES[mod]}.{name}"
                return q if q in self.repo.funcs else None
        return None

    def _apply_summary(self, ctx, qual, head, args):
        """roots of a call to a repository function = roots of the actual arguments whose parameters its returns may alias"""
        if not hasattr(self, "_fsum"):
            self._fsum = {}
        if qual not in self._fsum:
            self._fsum[qual] = None       # recursion guard: assume fresh while computing
            w = FV(self.repo, qual)
            ps = set()
            for r in w.returns():
                if r.value is None:
                    continue
                t = alias_term(w, r.value, at=r)
                for x in self.roots(w.ctx, t):
                    if x.startswith("param:"):
                        ps.add(x[6:].split(".")[0])
            self._fsum[qual] = ps
        ps = self._fsum[qual] or set()
        if not ps:
            return set()
        fi = self.repo.func(qual)
        a = fi.node.args
        pn = [x.arg for x in a.posonlyargs + a.args]
        kwn = head[3] if len(head) > 3 else ()
        npos = len(args) - len(kwn)
        out = set()
        for i, x in enumerate(args[:npos]):
            if i < len(pn) and pn[i] in ps:
                out |= self.roots(ctx, x)
        for n_, x in zip(kwn, args[npos:]):
            if n_ in ps:
                out |= self.roots(ctx, x)
        return out

    def _basic_index(self, ctx, idx):
        """False only for indices that are definitely advanced (Boolean masks, index arrays, lists):
        those copy.  Everything else (ints, slices, Ellipsis, None, unknown scalars) may give a view."""
        a = idx.single_atom()
        if a is None:
            return True           # integer arithmetic
        head, args = ctx.atoms[a]
        k = head[0]
        if k in ("cmp", "not", "and", "or"):
            return False          # Boolean mask
        if k == "list":
            return False
        if k == "call" and head[1] in ("np.where", "np.argwhere", "np.nonzero", "np.isnan", "np.isclose", "np.array",
                                       "np.asarray", "np.arange", ".argsort", "np.argsort", ".nonzero"):
            return False
        if k == "tuple":
            return all(self._basic_index(ctx, x) for x in args)
        if k == "call" and head[1] in ("tuple", "list") and len(args) == 1:
            return self._basic_index(ctx, args[0])
        if k == "seqcomp":
            return self._basic_index(ctx, args[0])
        if k == "phi":
            return any(self._basic_index(ctx, x) for x in args)
        return True


# ============================================================================ decoding helpers
def decode_new(repo, ctx, t):
    """term of a constructor call -> (class qual, {param name: Rat}) or None"""
    h = ctx.head_of(t)
    if not h or h[0] != "new":
        return None
    cls = h[1]
    kwn = h[2]
    args = ctx.args_of(t)
    npos = len(args) - len(kwn)
    out = {}
    init = repo.resolve_method(cls, "__init__") if cls != "?" else None
    pn = []
    if init is not None:
        a = init.node.args
        pn = [x.arg for x in a.posonlyargs + a.args][1:]
    for i in range(npos):
        out[pn[i] if i < len(pn) else f"#{i}"] = args[i]
    for n, v in zip(kwn, args[npos:]):
        out[n] = v
    return cls, out


def decode_call(ctx, t):
    """term of a call atom -> (fname, [positional Rats], {kw: Rat}) or None"""
    h = ctx.head_of(t)
    if not h or h[0] != "call":
        return None
    kwn = h[3] if len(h) > 3 else ()
    args = ctx.args_of(t)
    npos = len(args) - len(kwn)
    return h[1], list(args[:npos]), dict(zip(kwn, args[npos:]))


def phi_members(ctx, t):
    h = ctx.head_of(t)
    if h and h[0] == "phi":
        out = []
        for x in ctx.args_of(t):
            out += phi_members(ctx, x)
        return out
    return [t]


def is_sym(ctx, t, name):
    h = ctx.head_of(t)
    return bool(h) and h[0] == "sym" and h[1] == name


def is_const(ctx, t, value):
    h = ctx.head_of(t)
    if h and h[0] == "const":
        return h[1] is value or h[1] == value
    c = t.const()
    if c is not None and isinstance(value, (int, float)) and not isinstance(value, bool):
        return c == value
    return False


def is_str(ctx, t, value=None):
    h = ctx.head_of(t)
    return bool(h) and h[0] == "str" and (value is None or h[1] == value)


def tuple_consts(ctx, t):
    """('tuple'|'list' of integer constants) -> python tuple, else None"""
    h = ctx.head_of(t)
    if not h or h[0] not in ("tuple", "list"):
        return None
    out = []
    for x in ctx.args_of(t):
        c = x.const()
        if c is None or c.denominator != 1:
            return None
        out.append(int(c))
    return tuple(out)


def strip_stores(ctx, t):
    """distinct base values of t after removing element stores / in-place container mutations and
    expanding phis (the object the name is bound to, irrespective of later element writes)"""
    out = []

    def rec(x, depth=0):
        h = ctx.head_of(x)
        if h and h[0] in ("store", "mut") and depth < 50:
            rec(ctx.args_of(x)[0], depth + 1)
        elif h and h[0] == "phi":
            for y in ctx.args_of(x):
                rec(y, depth + 1)
        elif h and h[0] in ("rec", "carried"):
            return
        else:
            if not any(ctx.eq(x, o) for o in out):
                out.append(x)
    rec(t)
    return out


def stores_of(ctx, t):
    """[(index term, value term)] of all element stores layered on t (outermost last), phi-expanded"""
    out = []

    def rec(x, depth=0):
        h = ctx.head_of(x)
        if h and h[0] == "store" and depth < 50:
            b, i, v = ctx.args_of(x)
            rec(b, depth + 1)
            if not any(ctx.eq(i, oi) and ctx.eq(v, ov) for oi, ov in out):
                out.append((i, v))
        elif h and h[0] == "phi":
            for y in ctx.args_of(x):
                rec(y, depth + 1)
    rec(t)
    return out


def value_members(ctx, t):
    """the alternatives a value can be: phi members, and the arms of a conditional expression together with its test
    -> [(test or None, polarity, value)]"""
    out = []
    for m in phi_members(ctx, t):
        h = ctx.head_of(m)
        if h and h[0] == "ifexp":
            c, a, b = ctx.args_of(m)
            out += [(c, True, x) for _, _, x in value_members(ctx, a)] + [(c, False, x) for _, _, x in value_members(ctx, b)]
        else:
            out.append((None, None, m))
    return out


def mapping_entries(ctx, t):
    """the entries a dictionary-valued term is built from, whatever the style: element stores layered on an empty dict, a
    dict comprehension, a dict literal, alternatives of these -> [(key term, value term, filter terms of the comprehension)]"""
    out = []

    def rec(x, depth=0):
        h = ctx.head_of(x)
        if not h or depth > 50:
            return
        if h[0] == "store":
            b, i, v = ctx.args_of(x)
            rec(b, depth + 1)
            out.append((i, v, []))
        elif h[0] in ("phi", "gphi"):
            args = ctx.args_of(x)
            for y in (args if h[0] == "phi" else args[1::2]):
                rec(y, depth + 1)
        elif h[0] == "ifexp":
            for y in ctx.args_of(x)[1:]:
                rec(y, depth + 1)
        elif h[0] == "dictcomp":
            args = ctx.args_of(x)
            k, v = ctx.args_of(args[0])
            conds = []
            for g in args[1:]:
                conds += list(ctx.args_of(g)[1:])
            out.append((k, v, conds))
        elif h[0] == "dict":
            for it in ctx.args_of(x):
                if ctx.head_of(it) == ("item",):
                    k, v = ctx.args_of(it)
                    out.append((k, v, []))
        elif h[0] == "call" and h[1] == "dict" and len(h) > 3 and h[2] == 0:
            # dict(a=x, b=y): the keywords are the entries
            for k_, v_ in zip(h[3], ctx.args_of(x)):
                if k_ != "**":
                    out.append((ctx.mk(("str", k_)), v_, []))
    rec(t)
    return out


# ============================================================================ role-based statement lookup
def simple_assigns(v, stmts=None):
    """[(stmt, target name, value term)] for `name = value` statements (names are reported, never matched)"""
    out = []
    for st in (stmts if stmts is not None else v.stmts()):
        if isinstance(st, ast.Assign) and len(st.targets) == 1 and isinstance(st.targets[0], ast.Name):
            out.append((st, st.targets[0].id, v.term(st.value, at=st)))
        elif isinstance(st, ast.Assign) and len(st.targets) == 1 and isinstance(st.targets[0], (ast.Tuple, ast.List)) and \
                all(isinstance(e, ast.Name) for e in st.targets[0].elts):
            # `a, b = value`: each name with the element it receives
            for e in st.targets[0].elts:
                try:
                    out.append((st, e.id, v.ev._def_term(e.id, v.cfg.node(st), None)))
                except AnalysisError:
                    pass
    return out


def find_assign(v, pred, stmts=None):
    """first `name = value` whose value term satisfies pred(term, stmt) -> (stmt, name, term) or None"""
    for st, name, t in simple_assigns(v, stmts):
        try:
            if pred(t, st):
                return st, name, t
        except AnalysisError:
            continue
    return None


def find_assigns(v, pred, stmts=None):
    out = []
    for st, name, t in simple_assigns(v, stmts):
        try:
            if pred(t, st):
                out.append((st, name, t))
        except AnalysisError:
            continue
    return out


def local_term(v, name, at):
    """term of local variable `name` at statement `at` (name obtained from the source, e.g. from find_assign)"""
    return v.ev.term(ast.Name(id=name, ctx=ast.Load()), at=at)


def call_name(v, t):
    c = decode_call(v.ctx, t)
    return c[0] if c else None


# ============================================================================ finite order-type decision
def _eval_rat(ctx, r, env):
    """value (Fraction) of a rational term under env {atom id: Fraction}; None if an atom is unassigned"""
    from fractions import Fraction

    def poly(p):
        tot = Fraction(0)
        for m, c in p.items():
            x = Fraction(c)
            for a, e in m:
                if a in env:
                    val = env[a]
                else:
                    hd = ctx.atoms[a][0]
                    if hd[0] == "const" and isinstance(hd[1], (int, float)) and not isinstance(hd[1], bool):
                        val = Fraction(hd[1])
                    else:
                        return None
                if val == 0 and e < 0:
                    return None
                x *= val ** e
            tot += x
        return tot
    n, d = poly(r.num), poly(r.den)
    if n is None or d is None or d == 0:
        return None
    return n / d


def _prop_key(ctx, t):
    """(key, negated) identifying an opaque Boolean term as a propositional variable; complementary comparisons
    (eq/ne, is/isnot, in/notin, lt/le with swapped sides) share one variable"""
    h = ctx.head_of(t)
    if h and h[0] == "cmp":
        a = ctx.args_of(t)
        base = {"ne": ("eq", True), "isnot": ("is", True), "notin": ("in", True)}.get(h[1])
        if base:
            return ("cmp", base[0], tuple(x.key() for x in a)), True
        if h[1] == "le":
            return ("cmp", "lt", (a[1].key(), a[0].key())), True
        return ("cmp", h[1], tuple(x.key() for x in a)), False
    if h and h[0] == "call" and h[1] == "all":
        # all(P(x) ...) is the complement of any(not P(x) ...): one propositional variable for both
        dual = _Neg(ctx)._not(t)
        hd = ctx.head_of(dual)
        if hd and hd[0] == "call" and hd[1] == "any":
            return ("term", dual.key()), True
    return ("term", t.key()), False


class _Neg:
    """negation / connective builders of the evaluator, usable with a bare term context"""
    _not = Evaluator._not
    _bool = Evaluator._bool

    def __init__(self, ctx):
        self.ctx = ctx


def _eval_bool(ctx, t, env, props=None):
    """truth value of a Boolean term (and/or/not over eq/ne/lt/le comparisons of numeric terms) or None.
    With `props` (dict), opaque Boolean sub-terms are looked up there as propositional variables; a missing
    variable is recorded with value None (so that the caller can enumerate it)."""
    h = ctx.head_of(t)
    if h is not None:
        a = ctx.args_of(t)
        if h[0] == "const" and isinstance(h[1], bool):
            return h[1]
        if h[0] in ("and", "or"):
            vals = [_eval_bool(ctx, x, env, props) for x in a]
            if any(x is None for x in vals):
                return None
            return all(vals) if h[0] == "and" else any(vals)
        if h[0] == "not":
            x = _eval_bool(ctx, a[0], env, props)
            return None if x is None else not x
        if h[0] == "cmp" and h[1] in ("eq", "ne", "lt", "le"):
            x, y = _eval_rat(ctx, a[0], env), _eval_rat(ctx, a[1], env)
            if x is not None and y is not None:
                return {"eq": x == y, "ne": x != y, "lt": x < y, "le": x <= y}[h[1]]
        if h[0] == "cmp" and h[1] in ("in", "notin") and props is not None:
            # membership in a literal collection of constants is the disjunction of the equalities with its members
            hc = ctx.head_of(a[1])
            if hc and hc[0] in ("list", "tuple", "set") and ctx.args_of(a[1]) and \
                    all((ctx.head_of(m) or ("",))[0] in ("str", "const") or m.is_const() for m in ctx.args_of(a[1])):
                vals = []
                for m in ctx.args_of(a[1]):
                    l_, r_ = (a[0], m) if a[0].key() <= m.key() else (m, a[0])
                    vals.append(_eval_bool(ctx, ctx.mk(("cmp", "eq"), (l_, r_)), env, props))
                if any(x is None for x in vals):
                    return None
                res = any(vals)
                return res if h[1] == "in" else not res
    val = _eval_rat(ctx, t, env)
    if val is not None:
        return bool(val)
    # truthiness of a sized object whose length is one of the enumerated quantities: bool(x) == (len(x) != 0)
    for aid, lv in env.items():
        hd, ar = ctx.atoms[aid]
        if hd[0] == "call" and hd[1] == "len" and len(ar) == 1 and ctx.eq(ar[0], t):
            return lv != 0
    if props is None:
        return None
    key, neg = _prop_key(ctx, t)
    if key not in props:
        props[key] = None
        return None
    b = props[key]
    if b is None:
        return None
    return (not b) if neg else b


def _compile_bool(ctx, t, idset, memo):
    """_eval_bool(ctx, t, env, props) as a closure f(env, props) built once per term: the case analysis on the shape of the
    term (and the propositional key of every opaque sub-term) is done here and not once per assignment"""
    k = t.key()
    if k in memo:
        return memo[k]

    def numeric_possible(r):
        for p in (r.num, r.den):
            for m in p:
                for a, e in m:
                    if a not in idset:
                        hd = ctx.atoms[a][0]
                        if not (hd[0] == "const" and isinstance(hd[1], (int, float)) and not isinstance(hd[1], bool)):
                            return False
        return True

    def generic(t):
        num_ok = numeric_possible(t)
        len_of = None
        # a comprehension without filter is empty exactly when what it runs over is
        forms = [t]
        cur = t
        for _ in range(4):
            hc = ctx.head_of(cur)
            if hc and hc[0] == "seqcomp" and hc[1] == 1 and ctx.head_of(ctx.args_of(cur)[1]) == ("gen", 0):
                cur = ctx.args_of(ctx.args_of(cur)[1])[0]
                forms.append(cur)
            else:
                break
        for aid in idset:
            hd, ar = ctx.atoms[aid]
            if hd[0] == "call" and hd[1] == "len" and len(ar) == 1 and any(ctx.eq(ar[0], f_) for f_ in forms):
                len_of = aid
                break
        key, neg = _prop_key(ctx, t)
        intern = memo.setdefault("__intern__", {})
        names = memo.setdefault("__names__", [])
        if key not in intern:
            intern[key] = len(names)
            names.append(key)
        key = intern[key]          # small integer: looked up thousands of times per decision

        def f(env, props):
            if num_ok:
                val = _eval_rat(ctx, t, env)
                if val is not None:
                    return bool(val)
            if len_of is not None and len_of in env:
                return env[len_of] != 0
            if props is None:
                return None
            if key not in props:
                props[key] = None
                return None
            b = props[key]
            if b is None:
                return None
            return (not b) if neg else b
        return f

    h = ctx.head_of(t)
    f = None
    if h is not None:
        a = ctx.args_of(t)
        if h[0] == "const" and isinstance(h[1], bool):
            val = h[1]
            f = lambda env, props: val          # noqa: E731
        elif h[0] in ("and", "or"):
            subs = [_compile_bool(ctx, x, idset, memo) for x in a]
            is_and = h[0] == "and"

            def f(env, props, subs=subs, is_and=is_and):
                vals = [g(env, props) for g in subs]
                if None in vals:
                    return None
                return all(vals) if is_and else any(vals)
        elif h[0] == "not":
            g = _compile_bool(ctx, a[0], idset, memo)

            def f(env, props, g=g):
                x = g(env, props)
                return None if x is None else not x
        elif h[0] == "cmp" and h[1] in ("eq", "ne", "lt", "le"):
            fallback = generic(t)
            if numeric_possible(a[0]) and numeric_possible(a[1]):
                op = h[1]

                def f(env, props, a=a, op=op, fallback=fallback):
                    x, y = _eval_rat(ctx, a[0], env), _eval_rat(ctx, a[1], env)
                    if x is not None and y is not None:
                        return x == y if op == "eq" else x != y if op == "ne" else x < y if op == "lt" else x <= y
                    return fallback(env, props)
            else:
                f = fallback
        elif h[0] == "cmp" and h[1] in ("in", "notin"):
            hc = ctx.head_of(a[1])
            fallback = generic(t)
            if hc and hc[0] in ("list", "tuple", "set") and ctx.args_of(a[1]) and \
                    all((ctx.head_of(m) or ("",))[0] in ("str", "const") or m.is_const() for m in ctx.args_of(a[1])):
                subs = []
                for m in ctx.args_of(a[1]):
                    l_, r_ = (a[0], m) if a[0].key() <= m.key() else (m, a[0])
                    subs.append(_compile_bool(ctx, ctx.mk(("cmp", "eq"), (l_, r_)), idset, memo))
                is_in = h[1] == "in"

                def f(env, props, subs=subs, is_in=is_in, fallback=fallback):
                    if props is None:
                        return fallback(env, props)
                    vals = [g(env, props) for g in subs]
                    if None in vals:
                        return None
                    return any(vals) if is_in else not any(vals)
            else:
                f = fallback
    if f is None:
        f = generic(t)
    memo[k] = f
    return f


import time     # noqa: E402
_DEADLINE = [None]      # set by sa.equiv while a function is compared with its reference form


def _key_is_constant(ctx, key):
    """the term with this key is a literal (string / number / None / True / False)"""
    num, den = key
    if len(num) == 0:
        return True
    if len(den) == 1 and den[0][0] == () and all(m == () for m, c in num):
        return True
    if len(num) == 1 and len(den) == 1 and den[0][0] == () and len(num[0][0]) == 1 and num[0][0][0][1] == 1 and num[0][1] == 1:
        hd = ctx.atoms[num[0][0][0][0]][0]
        return hd[0] in ("str", "const")
    return False


def order_equiv(ctx, t1, t2, variables, pre=None, lo=1, lows=None):
    """Are two Boolean terms the same predicate?  Integer quantities `variables` (terms, each a single atom) occur
    only in comparisons with each other and with integer constants, so the finitely many order types over
    {lo .. max constant + 2} decide their part; every other Boolean sub-term (type tests, `is None`, opaque
    comparisons) is a propositional variable (complementary comparisons share one) and all assignments are
    enumerated.  `pre(values tuple)` restricts the integer assignments (a precondition established earlier on every
    path).  -> True / False / None (too many variables)."""
    import itertools
    from fractions import Fraction
    ids = []
    for x in variables:
        a = x.single_atom()
        if a is None:
            return None
        ids.append(a)
    ckey = None
    if pre is None:
        cache = ctx.__dict__.setdefault("_order_equiv_cache", {})
        ckey = (t1.key(), t2.key(), tuple(ids), lo, tuple(sorted(lows.items())) if lows else None)
        if ckey in cache:
            return cache[ckey]
    res = _order_equiv(ctx, t1, t2, ids, pre, lo, lows)
    if ckey is not None and not (res is None and _DEADLINE[0] is not None and time.time() > _DEADLINE[0]):
        cache[ckey] = res
    return res


def _order_equiv(ctx, t1, t2, ids, pre, lo, lows=None):
    """lows: {atom id: lower bound} for quantities whose lower bound is not `lo` (an established invariant)"""
    import itertools
    from fractions import Fraction
    lows = lows or {}
    los = [lows.get(i, lo) for i in ids]
    hi = max(los + [lo]) + 2

    def coeffs(r):
        for p in (r.num, r.den):
            for c in p.values():
                yield c
    idset = set(ids)
    for t in (t1, t2):
        for a in ctx.all_atoms(t) if ids else ():
            hd, ar = ctx.atoms[a]
            # only comparisons between the integer quantities and constants decide the range to enumerate
            if hd[0] == "cmp" and hd[1] in ("eq", "ne", "lt", "le") and all(x.atom_ids() <= idset for x in ar):
                for r in ar:
                    for c in coeffs(r):
                        if c.denominator == 1:
                            hi = max(hi, int(abs(c)) + 2)
    if hi > 12:
        return None
    # discover the propositional variables
    props = {}
    probe = {i: Fraction(l_) for i, l_ in zip(ids, los)}
    memo = {}
    f1, f2 = _compile_bool(ctx, t1, idset, memo), _compile_bool(ctx, t2, idset, memo)
    for _ in range(64):
        before = len(props)
        for f_ in (f1, f2):
            f_(probe, props)
        pending = [k for k, b in props.items() if b is None]
        if not pending and len(props) == before:
            break
        for k in pending:
            props[k] = False
    names = memo.get("__names__", [])
    keys = sorted(props, key=lambda i_: repr(names[i_]))
    if len(keys) > 15:
        return None
    # equalities of one term with two different constants exclude each other
    excl = []
    const_eq = {}
    for ki in keys:
        k = names[ki]
        if k[0] == "cmp" and k[1] == "eq" and len(k[2]) == 2:
            for i_ in (0, 1):
                other, cst = k[2][i_], k[2][1 - i_]
                if _key_is_constant(ctx, cst):
                    const_eq.setdefault(other, []).append((ki, cst))
    for other, lst in const_eq.items():
        for i_ in range(len(lst)):
            for j_ in range(i_ + 1, len(lst)):
                if lst[i_][1] != lst[j_][1]:
                    excl.append((lst[i_][0], lst[j_][0]))
    for vals in itertools.product(*[range(l_, hi + 1) for l_ in los]):
        if _DEADLINE[0] is not None and time.time() > _DEADLINE[0]:
            return None       # budget of the caller (the equivalence check) exhausted: not decided
        if pre is not None and not pre(vals):
            continue
        env = {i: Fraction(x) for i, x in zip(ids, vals)}
        for bits in itertools.product((False, True), repeat=len(keys)):
            pr = dict(zip(keys, bits))
            if excl and any(pr[k1] and pr[k2] for k1, k2 in excl):
                continue        # x == 'a' and x == 'b' cannot both hold
            n0 = len(pr)
            b1, b2 = f1(env, pr), f2(env, pr)
            if b1 is None or b2 is None or len(pr) != n0:
                return None     # a variable only visible under this assignment: not decided here
            if b1 != b2:
                return False
    return True


def cond_equiv(v, t1, t2, variables=(), pre=None, lo=0, lows=None):
    """normal-form equality, else the finite propositional / order-type decision"""
    if v.eq(t1, t2):
        return True
    return order_equiv(v.ctx, t1, t2, list(variables), pre=pre, lo=lo, lows=lows) is True


def cond_implies(v, a, b, variables=(), pre=None, lo=0, lows=None):
    """a -> b as predicates (finite propositional / order-type decision)"""
    t = v.ev._bool("or", [v.ev._not(a), b])
    return order_equiv(v.ctx, t, v.ctx.mk(("const", True)), list(variables), pre=pre, lo=lo, lows=lows) is True


def if_stmt_of(v, testexpr):
    for st in v.stmts():
        if isinstance(st, (ast.If, ast.While)) and st.test is testexpr:
            return st
    raise AnalysisError("internal: test expression without statement")


def else_stmts(v, ifst):
    """the alternative of `if c: ...`: its else-arm or, in guard-clause form (the body cannot fall through), the rest of
    the block that follows it"""
    if ifst.orelse:
        return ifst.orelse
    if not terminates(ifst.body):
        return []
    par = v.cfg.parent.get(id(ifst))
    block = v.body if (par is None or par[0] is None) else getattr(par[0], par[1])
    for i, st in enumerate(block):
        if st is ifst:
            return block[i + 1:]
    return []


def branch_stmts(v, ifst, positive=True):
    """statements executed when the test of ifst is true (positive) / false - whichever way round the source nests them"""
    return ifst.body if positive else else_stmts(v, ifst)


def path_term(v, st):
    """conjunction of the branch conditions that enclose statement st (on the canonical form of the function)"""
    parts = []
    for test, pol in v.cfg.path_condition(st):
        t = v.ev.term(test, at=if_stmt_of(v, test))
        parts.append(t if pol else v.ev._not(t))
    if not parts:
        return v.ctx.mk(("const", True))
    return v.ev._bool("and", parts)


def context_literals(v, st):
    """terms of the guards st has survived: tests that every path to st leaves by one edge although st is not nested in
    that arm (`if bad: raise ...` earlier in the block, an early return, a `continue`).  Decided on the CFG."""
    out = []
    for test, pol, syntactic in v.cfg.must_literals(st):
        if syntactic:
            continue
        t = v.ev.term(test, at=if_stmt_of(v, test))
        out.append(t if pol else v.ev._not(t))
    if not v.ev.exact:      # (exact mode adds them in full_term)
        # guards that sit inside a branch (`if a: (if b: raise)` survived means `not (a and b)`)
        out += v.ev._structural_reach(st)
    return out


def context_term(v, st):
    lits = context_literals(v, st)
    if not lits:
        return v.ctx.mk(("const", True))
    return v.ev._bool("and", lits)


def _true(v):
    return v.ctx.mk(("const", True))


def _is_true(v, t):
    h = v.ctx.head_of(t)
    return bool(h) and h[0] == "const" and h[1] is True


def reached_iff(v, st, want, variables=(), pre=None, lo=0):
    """Statement st is reached exactly under `want` - for inputs that get as far as st's block.  With own = the enclosing
    branch conditions and ctx = the earlier guards st has survived:  own & ctx => want   and   want & ctx => own.
    (`want` may, but need not, repeat the negations of earlier guards; a condition that is stronger or weaker than
    documented fails one of the two implications.)  Invariant under nesting / un-nesting of alternatives."""
    own = path_term(v, st)
    if cond_equiv(v, own, want, variables, pre=pre, lo=lo):
        return True
    lits = context_literals(v, st)
    if not lits:
        return False
    ctx = v.ev._bool("and", lits)
    return cond_implies(v, v.ev._bool("and", [own, ctx]), want, variables, pre=pre, lo=lo) and \
        cond_implies(v, v.ev._bool("and", [want, ctx]), own, variables, pre=pre, lo=lo)


def reached_implies(v, st, want, variables=(), pre=None, lo=0):
    """whenever st is reached, `want` holds (enclosing conditions and survived guards together)"""
    own = path_term(v, st)
    if cond_implies(v, own, want, variables, pre=pre, lo=lo):
        return True
    lits = context_literals(v, st)
    return bool(lits) and cond_implies(v, v.ev._bool("and", [own] + lits), want, variables, pre=pre, lo=lo)


def implies_reached(v, prem, st, variables=(), pre=None, lo=0):
    """inputs satisfying `prem` that get as far as st's block do reach st"""
    own = path_term(v, st)
    if cond_implies(v, prem, own, variables, pre=pre, lo=lo):
        return True
    lits = context_literals(v, st)
    return bool(lits) and cond_implies(v, v.ev._bool("and", [prem] + lits), own, variables, pre=pre, lo=lo)


def reached_iff_any(v, sts, want, variables=(), pre=None, lo=0):
    """`want` is covered exactly by a set of statements (e.g. several raises of one refusal): every chosen statement is
    reached only under `want`, and `want` (with the guards all of them have survived) leads to one of them.
    -> the list of statements that realise `want`, [] if it is not realised exactly"""
    cand = [st for st in sts if reached_implies(v, st, want, variables, pre=pre, lo=lo)]
    if not cand:
        return []
    if len(cand) == 1:
        return cand if reached_iff(v, cand[0], want, variables, pre=pre, lo=lo) else []
    lit_sets = [context_literals(v, st) for st in cand]
    common = [l for l in lit_sets[0] if all(any(v.eq(l, m) for m in ls) for ls in lit_sets[1:])]
    disj = v.ev._bool("or", [v.ev._bool("and", [path_term(v, st)] + ls) for st, ls in zip(cand, lit_sets)])
    if cond_implies(v, v.ev._bool("and", [want] + common), disj, variables, pre=pre, lo=lo):
        return cand
    return []


# ============================================================================ finite string domains (dispatch by extension / keyword)
_OTHER = "\0other"


def _str_consts(ctx, t):
    """python list of the string constants of a str / tuple / list / set term, else None"""
    h = ctx.head_of(t)
    if not h:
        return None
    if h[0] == "str":
        return [h[1]]
    if h[0] in ("tuple", "list", "set"):
        out = []
        for x in ctx.args_of(t):
            hx = ctx.head_of(x)
            if not hx or hx[0] != "str":
                return None
            out.append(hx[1])
        return out
    return None


def _eval_on_subject(ctx, t, subject, value):
    """truth value of Boolean term t when `subject` (a term) equals the string `value`; sub-terms that do not mention the
    subject evaluate to None (unknown) and are combined with Kleene logic"""
    h = ctx.head_of(t)
    if h is None:
        return None
    a = ctx.args_of(t)
    if h[0] == "const" and isinstance(h[1], bool):
        return h[1]
    if h[0] == "not":
        x = _eval_on_subject(ctx, a[0], subject, value)
        return None if x is None else not x
    if h[0] in ("and", "or"):
        vals = [_eval_on_subject(ctx, x, subject, value) for x in a]
        if h[0] == "and":
            if any(x is False for x in vals):
                return False
            return True if all(x is True for x in vals) else None
        if any(x is True for x in vals):
            return True
        return False if all(x is False for x in vals) else None
    if h[0] == "cmp" and h[1] in ("eq", "ne", "in", "notin"):
        l, r = a
        if h[1] in ("eq", "ne"):
            for x, y in ((l, r), (r, l)):
                if ctx.eq(x, subject):
                    cs = _str_consts(ctx, y)
                    if cs is not None and len(cs) == 1 and ctx.head_of(y)[0] == "str":
                        res = value == cs[0]
                        return res if h[1] == "eq" else not res
        else:
            if ctx.eq(l, subject):
                cs = _str_consts(ctx, r)
                if cs is not None:
                    res = value in cs
                    return res if h[1] == "in" else not res
    return None


def subject_constants(ctx, terms, subject):
    """all string constants the subject is compared with in the given Boolean terms"""
    out = set()

    def rec(t):
        h = ctx.head_of(t)
        if h is None:
            return
        a = ctx.args_of(t)
        if h[0] == "cmp" and h[1] in ("eq", "ne", "in", "notin"):
            for x, y in ((a[0], a[1]), (a[1], a[0])):
                if ctx.eq(x, subject):
                    cs = _str_consts(ctx, y)
                    if cs:
                        out.update(cs)
        if h[0] in ("and", "or", "not"):
            for x in a:
                rec(x)
    for t in terms:
        rec(t)
    return out


def reach_values(v, st, subject, candidates):
    """{c in candidates + OTHER : statement st is reached when subject == c}  (None for a value the conditions do not
    decide).  The conditions are the enclosing branches and the survived guards of st; the subject is only ever compared
    with string constants, so the finitely many candidates (and one value outside all of them) are exhaustive."""
    lits = []
    sa_ = subject.single_atom()
    for test, pol, syn in v.cfg.must_literals(st):
        t = v.ev.term(test, at=if_stmt_of(v, test))
        if sa_ is not None and sa_ not in v.ctx.all_atoms(t) and not v.eq(t, subject):
            continue          # a condition on something else (it does not restrict the subject)
        lits.append(t if pol else v.ev._not(t))
    out = {}
    for c in list(candidates) + [_OTHER]:
        vals = [_eval_on_subject(v.ctx, t, subject, c) for t in lits if not _is_true(v, t)]
        if any(x is False for x in vals):
            out[c] = False
        elif all(x is True for x in vals):
            out[c] = True
        else:
            out[c] = None
    return out


def values_reaching(v, st, subject, among=None):
    """set of string values of `subject` under which st is reached (OTHER stands for any value the code never mentions);
    None if the conditions on the way to st do not decide some candidate.  Candidates: every constant the subject is compared
    with anywhere in the function (or `among`)."""
    if among is None:
        conds = []
        for s2 in v.stmts():
            if isinstance(s2, (ast.If, ast.While)):
                conds.append(v.ev.term(s2.test, at=s2))
        among = sorted(subject_constants(v.ctx, conds, subject))
    rv = reach_values(v, st, subject, among)
    if any(x is None for x in rv.values()):
        return None
    return {c for c, x in rv.items() if x}


def full_term(v, st):
    """enclosing branch conditions and survived guards of st together (invariant under nesting / un-nesting)"""
    parts = [path_term(v, st)] + context_literals(v, st)
    if v.ev.exact:
        parts += v.ev._structural_reach(st)        # guards that sit inside branches (exact form, see Evaluator)
    return v.ev._bool("and", parts)


# ============================================================================ gated reaching definitions
def gated_values(v, name, at, via=None):
    """[(condition term, value term, defining statement)] for the definitions of local `name` that may arrive at statement
    `at`: definition d arrives iff it was executed (its enclosing branches and survived guards) and no later definition lying
    between d and `at` was.  Independent of whether the code says `x = a; if c: x = b` or `if c: x = b else: x = a`.
    None when a definition sits in a loop that does not contain `at` (then "later" is not a static notion)."""
    cfg = v.cfg
    atn = cfg.node(at) if isinstance(at, ast.AST) else at
    restrict = None
    if via:
        restrict = frozenset(cfg.via_restriction([cfg.node(x) if isinstance(x, ast.AST) else x for x in via]))
    IN, _ = cfg.reaching(restrict)
    ds = sorted(IN.get(atn.id, {}).get(name) or ())
    if not ds:
        return []
    nodes = [cfg.nodes[d] for d in ds]
    at_loops = {id(p) for p, f in cfg.enclosing(at) if isinstance(p, (ast.For, ast.While))} if isinstance(at, ast.AST) else set()
    for n in nodes:
        if n.stmt is None:
            return None
        for p, f in cfg.enclosing(n.stmt):
            if isinstance(p, (ast.For, ast.While)) and id(p) not in at_loops:
                return None
    fwd = {}
    def reach_fwd(a):
        if a in fwd:
            return fwd[a]
        seen = set()
        st = [a]
        while st:
            x = st.pop()
            for s in cfg.succ[x]:
                if (x, s) in cfg.back_edges or s in seen:
                    continue
                seen.add(s)
                st.append(s)
        fwd[a] = seen
        return seen
    out = []
    param_reaches = name in v.ev._params and v.ev._param_reaches(name, atn, restrict)
    execs = {n.id: full_term(v, n.stmt) for n in nodes}
    for n in nodes:
        killers = [m for m in nodes if m.id != n.id and m.id != atn.id and m.id in reach_fwd(n.id) and atn.id in reach_fwd(m.id)]
        cond = v.ev._bool("and", [execs[n.id]] + [v.ev._not(execs[m.id]) for m in killers])
        val = v.ev._def_term(name, n, restrict)
        out.append((cond, val, n.stmt))
    if param_reaches:
        cond = v.ev._bool("and", [v.ev._not(execs[m.id]) for m in nodes]) if nodes else _true(v)
        out.append((cond, v.ev._sym(f"param:{name}", v.ev.param_types.get(name)), None))
    return out


def gated_expr(v, expr, at, via=None):
    """gated values of an expression: a plain local name -> its gated definitions; a conditional expression -> its two arms
    under the test and its negation; anything else -> [(True, term)]"""
    if isinstance(expr, ast.Name) and (expr.id in v.ev._local_names) :
        g = gated_values(v, expr.id, at, via=via)
        if g is None:
            return None
        out = []
        for cond, val, st in g:
            # a definition whose right-hand side is itself a conditional expression or a name is expanded one more level
            rhs = st.value if isinstance(st, ast.Assign) and len(st.targets) == 1 and isinstance(st.targets[0], ast.Name) else None
            if isinstance(rhs, (ast.IfExp, ast.Name)) and not (isinstance(rhs, ast.Name) and rhs.id == expr.id):
                sub = gated_expr(v, rhs, st)
                if sub is None:
                    return None
                out += [(v.ev._bool("and", [cond, c2]), v2, s2 or st) for c2, v2, s2 in sub]
            else:
                out.append((cond, val, st))
        return out
    if isinstance(expr, ast.IfExp):
        t = v.term(expr.test, at=at, via=via)
        a = gated_expr(v, expr.body, at, via)
        b = gated_expr(v, expr.orelse, at, via)
        if a is None or b is None:
            return None
        return [(v.ev._bool("and", [t, c]), x, s) for c, x, s in a] + [(v.ev._bool("and", [v.ev._not(t), c]), x, s) for c, x, s in b]
    return [(_true(v), v.term(expr, at=at, via=via), None)]


def type_test(v, t):
    """(subject term, [type terms]) when `t` says "subject has one of these types": `isinstance(x, T)`, `isinstance(x, (A, B))`
    or a disjunction of such tests of one subject (the two spellings are one canonical term); None otherwise"""
    d = decode_call(v.ctx, t)
    if d and d[0] == "isinstance" and len(d[1]) == 2:
        h2 = v.ctx.head_of(d[1][1])
        return d[1][0], (list(v.ctx.args_of(d[1][1])) if h2 == ("tuple",) else [d[1][1]])
    if v.ctx.head_of(t) == ("or",):
        parts = [type_test(v, x) for x in v.ctx.args_of(t)]
        if parts and all(p is not None for p in parts) and all(v.eq(p[0], parts[0][0]) for p in parts):
            return parts[0][0], [y for p in parts for y in p[1]]
    return None


def returned_call(v, r):
    """the call whose result statement `r` returns: `return f(...)` itself, or the single assignment `x = f(...)` that reaches
    `return x` -> (Call node, statement to evaluate its arguments at), or (None, r)"""
    if isinstance(r.value, ast.Call):
        return r.value, r
    if isinstance(r.value, ast.Name):
        IN, _ = v.cfg.reaching(None)
        ds = sorted(IN.get(v.cfg.node(r).id, {}).get(r.value.id) or ())
        if len(ds) == 1:
            st = v.cfg.nodes[ds[0]].stmt
            if isinstance(st, ast.Assign) and len(st.targets) == 1 and isinstance(st.targets[0], ast.Name) and \
                    isinstance(st.value, ast.Call):
                return st.value, st
    return None, r


def expand_conditional_values(v, gated):
    """gated alternatives whose value is a conditional expression (`x = a if c else b`) as one alternative per arm, the test
    (or its negation) joined to the gate: the same list the two-armed `if c: x = a  else: x = b` gives"""
    out = []
    for cond, val, st in gated:
        h = v.ctx.head_of(val)
        if h and h[0] == "ifexp":
            c_, a_, b_ = v.ctx.args_of(val)
            out += expand_conditional_values(v, [(v.ev._bool("and", [cond, c_]), a_, st),
                                                 (v.ev._bool("and", [cond, v.ev._not(c_)]), b_, st)])
        else:
            out.append((cond, val, st))
    return out


def value_iff(v, gated, is_value, want, assume=None, variables=(), pre=None, lo=0):
    """the gated alternatives whose value satisfies is_value(term) arrive exactly under `want` (given `assume`)"""
    conds = [c for c, val, st in gated if is_value(val)]
    if not conds:
        return False
    got = v.ev._bool("or", conds) if len(conds) > 1 else conds[0]
    if assume is not None:
        return cond_implies(v, v.ev._bool("and", [assume, got]), want, variables, pre=pre, lo=lo) and \
            cond_implies(v, v.ev._bool("and", [assume, want]), got, variables, pre=pre, lo=lo)
    return cond_equiv(v, got, want, variables, pre=pre, lo=lo)
