import ipywidgets


def interact(**kwargs):
    """Decorator for interactive plotting.

    This is a wrapper around ``ipywidgets.interact``. For details, please refer
    to ``interact`` function in ``ipywidgets`` package.

    Example
    -------
    1. Interactive plotting.

    >>> import discretisedfield as df
    ...
    >>> p1 = (-50e-9, -50e-9, -50e-9)
    >>> p2 = (50e-9, 50e-9, 50e-9)
    >>> n = (10, 10, 10)
    >>> mesh = df.Mesh(region=df.Region(p1=p1, p2=p2), n=n)
    >>> field = df.Field(mesh, nvdim=3, value=(1, 2, 0))
    >>> @df.interact(x=field.mesh.slider('x')) # doctest: +SKIP
    ... def myplot(x):
    ...     field.sel(x=x).mpl()
    interactive(...)

    """
    return ipywidgets.interact(**kwargs)
