import ubermagutil.units as uu

import discretisedfield as df
import discretisedfield.plotting.util as plot_util
from discretisedfield.plotting.mpl import Mpl


class MplMesh(Mpl):
    def __init__(self, mesh):
        if mesh.region.ndim != 3:
            raise RuntimeError("Only 3d meshes can be plotted.")
        self.mesh = mesh

    def __call__(
        self,
        *,
        ax=None,
        figsize=None,
        color=plot_util.cp_hex[:2],
        multiplier=None,
        box_aspect="auto",
        filename=None,
        **kwargs,
    ):
        """``matplotlib`` plot.

        If ``ax`` is not passed, ``matplotlib.axes.Axes`` object is created
        automatically and the size of a figure can be specified using
        ``figsize``. The color of lines depicting the region and the
        discretisation cell can be specified using ``color`` length-2 tuple,
        where the first element is the colour of the region and the second
        element is the colour of the discretisation cell. The plot is saved in
        PDF-format if ``filename`` is passed.

        It is often the case that the object size is either small (e.g. on a
        nanoscale) or very large (e.g. in units of kilometers). Accordingly,
        ``multiplier`` can be passed as :math:`10^{n}`, where :math:`n` is a
        multiple of 3 (..., -6, -3, 0, 3, 6,...). According to that value, the
        axes will be scaled and appropriate units shown. For instance, if
        ``multiplier=1e-9`` is passed, all axes will be divided by
        :math:`1\\,\\text{nm}` and :math:`\\text{nm}` units will be used as
        axis labels. If ``multiplier`` is not passed, the best one is
        calculated internally.

        This method is based on ``matplotlib.pyplot.plot``, so any keyword
        arguments accepted by it can be passed (for instance, ``linewidth``,
        ``linestyle``, etc.).

        Parameters
        ----------
        ax : matplotlib.axes.Axes, optional

            Axes to which the plot is added. Defaults to ``None`` - axes are
            created internally.

        figsize : (2,) tuple, optional

            The size of a created figure if ``ax`` is not passed. Defaults to
            ``None``.

        color : (2,) array_like

            A valid ``matplotlib`` color for lines depicting the region.
            Defaults to the default color palette.

        multiplier : numbers.Real, optional

            Axes multiplier. Defaults to ``None``.

        box_aspect : str, array_like (3), optional

            Set the aspect-ratio of the plot. If set to `'auto'` the aspect
            ratio is determined from the edge lengths of the region on which
            the mesh is defined. To set different aspect ratios a tuple can be
            passed. Defaults to ``'auto'``.

        filename : str, optional

            If filename is passed, the plot is saved. Defaults to ``None``.

        Examples
        --------
        1. Visualising the mesh using ``matplotlib``.

        >>> import discretisedfield as df
        ...
        >>> p1 = (-50e-9, -50e-9, 0)
        >>> p2 = (50e-9, 50e-9, 10e-9)
        >>> region = df.Region(p1=p1, p2=p2)
        >>> mesh = df.Mesh(region=region, n=(50, 50, 5))
        ...
        >>> mesh.mpl()

        """
        ax = self._setup_axes(ax, figsize, projection="3d")

        multiplier = self._setup_multiplier(multiplier)

        rescaled_mesh = self.mesh.scale(1 / multiplier, reference_point=(0, 0, 0))
        rescaled_mesh.region.units = [
            f"{uu.rsi_prefixes[multiplier]}{unit}" for unit in self.mesh.region.units
        ]
        cell_region = df.Region(
            p1=rescaled_mesh.region.pmin,
            p2=rescaled_mesh.region.pmin + rescaled_mesh.cell,
            units=rescaled_mesh.region.units,
        )
        rescaled_mesh.region.mpl(
            ax=ax, color=color[0], box_aspect=box_aspect, multiplier=1, **kwargs
        )
        cell_region.mpl(ax=ax, color=color[1], box_aspect=None, multiplier=1, **kwargs)

        self._savefig(filename)

    def subregions(
        self,
        *,
        ax=None,
        figsize=None,
        color=plot_util.cp_hex,
        multiplier=None,
        show_region=False,
        box_aspect="auto",
        filename=None,
        **kwargs,
    ):
        """``matplotlib`` subregions plot.

        If ``ax`` is not passed, ``matplotlib.axes.Axes`` object is created
        automatically and the size of a figure can be specified using
        ``figsize``. The color of lines depicting subregions and can be
        specified using ``color`` list. The plot is saved in PDF-format if
        ``filename`` is passed. The whole region is only shown if
        ``show_region=True``.

        It is often the case that the object size is either small (e.g. on a
        nanoscale) or very large (e.g. in units of kilometers). Accordingly,
        ``multiplier`` can be passed as :math:`10^{n}`, where :math:`n` is a
        multiple of 3 (..., -6, -3, 0, 3, 6,...). According to that value, the
        axes will be scaled and appropriate units shown. For instance, if
        ``multiplier=1e-9`` is passed, all axes will be divided by
        :math:`1\\,\\text{nm}` and :math:`\\text{nm}` units will be used as
        axis labels. If ``multiplier`` is not passed, the best one is
        calculated internally.

        This method is based on ``matplotlib.pyplot.plot``, so any keyword
        arguments accepted by it can be passed (for instance, ``linewidth``,
        ``linestyle``, etc.).

        Parameters
        ----------
        ax : matplotlib.axes.Axes, optional

            Axes to which the plot is added. Defaults to ``None`` - axes are
            created internally.

        figsize : (2,) tuple, optional

            The size of a created figure if ``ax`` is not passed. Defaults to
            ``None``.

        color : array_like

            Subregion colours. Defaults to the default color palette.

        multiplier : numbers.Real, optional

            Axes multiplier. Defaults to ``None``.

        show_region : bool, optional

            If ``True`` also plot the whole region. Defaults to ``False``.

        box_aspect : str, array_like (3), optional

            Set the aspect-ratio of the plot. If set to `'auto'` the aspect
            ratio is determined from the edge lengths of the region on which
            the mesh is defined. To set different aspect ratios a tuple can be
            passed. Defaults to ``'auto'``.

        filename : str, optional

            If filename is passed, the plot is saved. Defaults to ``None``.

        Examples
        --------
        1. Visualising subregions using ``matplotlib``.

        >>> p1 = (0, 0, 0)
        >>> p2 = (100, 100, 100)
        >>> n = (10, 10, 10)
        >>> subregions = {'r1': df.Region(p1=(0, 0, 0), p2=(50, 100, 100)),
        ...               'r2': df.Region(p1=(50, 0, 0), p2=(100, 100, 100))}
        >>> mesh = df.Mesh(p1=p1, p2=p2, n=n, subregions=subregions)
        ...
        >>> mesh.mpl.subregions()

        """
        ax = self._setup_axes(ax, figsize, projection="3d")

        multiplier = self._setup_multiplier(multiplier)

        if box_aspect == "auto":
            ax.set_box_aspect(self.mesh.region.edges)
        elif box_aspect is not None:
            ax.set_box_aspect(box_aspect)

        if show_region:
            self.mesh.region.mpl(
                ax=ax, multiplier=multiplier, color="grey", box_aspect=None
            )

        for i, subregion in enumerate(self.mesh.subregions.values()):
            subregion.mpl(
                ax=ax,
                multiplier=multiplier,
                color=color[i % len(color)],
                box_aspect=None,
                **kwargs,
            )

        self._savefig(filename)

    def _setup_multiplier(self, multiplier):
        return (
            uu.si_max_multiplier(self.mesh.region.edges)
            if multiplier is None
            else multiplier
        )

    def _axis_labels(self, ax, multiplier):
        raise NotImplementedError
