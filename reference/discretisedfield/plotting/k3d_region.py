import k3d
import numpy as np
import ubermagutil.units as uu

import discretisedfield.plotting.util as plot_util


class K3dRegion:
    def __init__(self, region):
        if region.ndim != 3:
            raise RuntimeError("Only 3d regions can be plotted.")
        self.region = region

    def __call__(
        self, *, plot=None, color=plot_util.cp_int[0], multiplier=None, **kwargs
    ):
        """``k3d`` plot.

        If ``plot`` is not passed, ``k3d.Plot`` object is created
        automatically. The colour of the region can be specified using
        ``color`` argument.

        For details about ``multiplier``, please refer to
        ``discretisedfield.Region.mpl``.

        This method is based on ``k3d.voxels``, so any keyword arguments
        accepted by it can be passed (e.g. ``wireframe``).

        Parameters
        ----------
        plot : k3d.Plot, optional

            Plot to which the plot is added. Defaults to ``None`` - plot is
            created internally.

        color : int, optional

            Colour of the region. Defaults to the default color palette.

        multiplier : numbers.Real, optional

            Axes multiplier. Defaults to ``None``.

        Examples
        --------
        1. Visualising the region using ``k3d``.

        >>> import discretisedfield as df
        ...
        >>> p1 = (-50e-9, -50e-9, 0)
        >>> p2 = (50e-9, 50e-9, 10e-9)
        >>> region = df.Region(p1=p1, p2=p2)
        >>> region.k3d()
        Plot(...)

        """
        if self.region.ndim != 3:
            raise RuntimeError("Only 3-dimensional regions can be plotted.")

        if plot is None:
            plot = k3d.plot()
            plot.display()

        multiplier = self._setup_multiplier(multiplier)

        plot_array = np.ones((1, 1, 1)).astype(np.uint8)  # avoid k3d warning

        rescaled_region = self.region.scale(1 / multiplier)
        bounds = [
            i
            for sublist in zip(rescaled_region.pmin, rescaled_region.pmax)
            for i in sublist
        ]

        plot += k3d.voxels(
            plot_array, color_map=color, bounds=bounds, outlines=False, **kwargs
        )

        self._axis_labels(plot, multiplier)

    def _setup_multiplier(self, multiplier):
        return self.region.multiplier if multiplier is None else multiplier

    def _axis_labels(self, plot, multiplier):
        plot.axes = [
            rf"{dim}\,(\text{{{uu.rsi_prefixes[multiplier]}{unit}}})"
            for dim, unit in zip(self.region.dims, self.region.units)
        ]
