"""K3d based plotting."""

import k3d
import matplotlib
import numpy as np
import ubermagutil.units as uu

import discretisedfield.plotting.util as plot_util


class K3dField:
    """K3d plotting."""

    def __init__(self, data):
        if data.mesh.region.ndim != 3:
            raise RuntimeError("Only fields with 3 spatial dimensions can be plotted.")
        self.data = data

    def nonzero(
        self,
        plot=None,
        color=plot_util.cp_int[0],
        multiplier=None,
        interactive_field=None,
        **kwargs,
    ):
        r"""``k3d`` plot of non-zero discretisation cells.

        If ``plot`` is not passed, ``k3d.Plot`` object is created
        automatically. The colour of the non-zero discretisation cells can be
        specified using ``color`` argument.

        It is often the case that the object size is either small (e.g. on a
        nanoscale) or very large (e.g. in units of kilometers). Accordingly,
        ``multiplier`` can be passed as :math:`10^{n}`, where :math:`n` is a
        multiple of 3 (..., -6, -3, 0, 3, 6,...). According to that value, the
        axes will be scaled and appropriate units shown. For instance, if
        ``multiplier=1e-9`` is passed, all axes will be divided by
        :math:`1\\,\\text{nm}` and :math:`\\text{nm}` units will be used as
        axis labels. If ``multiplier`` is not passed, the best one is
        calculated internally.

        For interactive plots the field itself, before being sliced with the
        field, must be passed as ``interactive_field``. For example, if
        ``field.x.sel(z=(0, 1))`` is plotted, ``interactive_field=field`` must be
        passed. In addition, ``k3d.plot`` object cannot be created internally
        and it must be passed and displayed by the user.

        This method is based on ``k3d.voxels``, so any keyword arguments
        accepted by it can be passed (e.g. ``wireframe``).

        Parameters
        ----------
        plot : k3d.Plot, optional

            Plot to which the plot is added. Defaults to ``None`` - plot is
            created internally. This is not true in the case of an interactive
            plot, when ``plot`` must be created externally.

        color : int, optional

            Colour of the non-zero discretisation cells. Defaults to the
            default color palette.

        multiplier : numbers.Real, optional

            Axes multiplier. Defaults to ``None``.

        interactive_field : discretisedfield.Field, optional

            The whole field object (before any slices) used for interactive
            plots. Defaults to ``None``.

        Raises
        ------
        ValueError

            If the dimension of the field is not 1.

        Examples
        --------
        1. Visualising non-zero discretisation cells using ``k3d``.

        >>> import discretisedfield as df
        ...
        >>> p1 = (-50e-9, -50e-9, -50e-9)
        >>> p2 = (50e-9, 50e-9, 50e-9)
        >>> n = (10, 10, 10)
        >>> mesh = df.Mesh(region=df.Region(p1=p1, p2=p2), n=n)
        >>> field = df.Field(mesh, nvdim=3, value=(1, 2, 0))
        >>> def normfun(point):
        ...     x, y, z = point
        ...     if x**2 + y**2 < 30**2:
        ...         return 1
        ...     else:
        ...         return 0
        >>> field.norm = normfun
        ...
        >>> field.norm.k3d.nonzero()
        Plot(...)

        .. seealso:: :py:func:`~discretisedfield.plotting.K3d.voxels`

        """

        if self.data.nvdim != 1:
            msg = f"Cannot plot nvdim={self.data.nvdim} field."
            raise ValueError(msg)

        if plot is None:
            plot = k3d.plot()
            plot.display()

        if multiplier is None:
            multiplier = uu.si_max_multiplier(self.data.mesh.region.edges)

        if interactive_field is not None:
            plot.camera_auto_fit = False

            objects_to_be_removed = []
            for i in plot.objects:
                if i.name != "total_region":
                    objects_to_be_removed.append(i)
            for i in objects_to_be_removed:
                plot -= i

            if not any([o.name == "total_region" for o in plot.objects]):
                interactive_field.mesh.region.k3d(
                    plot=plot, multiplier=multiplier, name="total_region", opacity=0.025
                )

        # all voxels have the same color
        plot_array = np.ones_like(self.data.array)
        # remove voxels where field is zero
        plot_array[self.data.array == 0] = 0
        plot_array = plot_array[..., 0]  # remove an empty dimension
        plot_array = np.swapaxes(plot_array, 0, 2)  # k3d: arrays are (z, y, x)
        plot_array = plot_array.astype(np.uint8)  # to avoid k3d warning

        bounds = [
            i
            for sublist in zip(
                np.divide(self.data.mesh.region.pmin, multiplier),
                np.divide(self.data.mesh.region.pmax, multiplier),
            )
            for i in sublist
        ]

        plot += k3d.voxels(
            plot_array, color_map=color, bounds=bounds, outlines=False, **kwargs
        )

        plot.axes = [
            rf"{dim}\,(\text{{{uu.rsi_prefixes[multiplier]}{unit}}})"
            for dim, unit in zip(
                self.data.mesh.region.dims, self.data.mesh.region.units
            )
        ]

    def scalar(
        self,
        plot=None,
        filter_field=None,
        cmap="cividis",
        multiplier=None,
        interactive_field=None,
        **kwargs,
    ):
        """``k3d`` plot of a scalar field.

        If ``plot`` is not passed, ``k3d.Plot`` object is created
        automatically. The colormap can be specified using ``cmap`` argument.
        By passing ``filter_field`` the points at which the voxels are not
        shown can be determined. More precisely, only those discretisation
        cells where ``filter_field != 0`` are plotted.

        It is often the case that the object size is either small (e.g. on a
        nanoscale) or very large (e.g. in units of kilometers). Accordingly,
        ``multiplier`` can be passed as :math:`10^{n}`, where :math:`n` is a
        multiple of 3 (..., -6, -3, 0, 3, 6,...). According to that value, the
        axes will be scaled and appropriate units shown. For instance, if
        ``multiplier=1e-9`` is passed, all axes will be divided by
        :math:`1\\,\\text{nm}` and :math:`\\text{nm}` units will be used as
        axis labels. If ``multiplier`` is not passed, the best one is
        calculated internally.

        For interactive plots the field itself, before being sliced with the
        field, must be passed as ``interactive_field``. For example, if
        ``field.x.sel(z=(0, 1))`` is plotted, ``interactive_field=field`` must be
        passed. In addition, ``k3d.plot`` object cannot be created internally
        and it must be passed and displayed by the user.

        This method is based on ``k3d.voxels``, so any keyword arguments
        accepted by it can be passed (e.g. ``wireframe``).

        Parameters
        ----------
        plot : k3d.Plot, optional

            Plot to which the plot is added. Defaults to ``None`` - plot is
            created internally. This is not true in the case of an interactive
            plot, when ``plot`` must be created externally.

        filter_field : discretisedfield.Field, optional

            Scalar field. Only discretisation cells where ``filter_field != 0``
            are shown. Defaults to ``None``.

        cmap : str, optional

            Colormap.

        multiplier : numbers.Real, optional

            Axes multiplier. Defaults to ``None``.

        interactive_field : discretisedfield.Field, optional

            The whole field object (before any slices) used for interactive
            plots. Defaults to ``None``.

        Raises
        ------
        ValueError

            If the dimension of the field is not 1.

        Example
        -------
        1. Plot the scalar field using ``k3d``.

        >>> import discretisedfield as df
        ...
        >>> p1 = (-50, -50, -50)
        >>> p2 = (50, 50, 50)
        >>> n = (10, 10, 10)
        >>> mesh = df.Mesh(p1=p1, p2=p2, n=n)
        ...
        >>> field = df.Field(mesh, nvdim=1, value=5)
        >>> field.k3d.scalar()
        Plot(...)

        .. seealso:: :py:func:`~discretisedfield.plotting.K3d.vector`

        """

        if self.data.nvdim != 1:
            msg = f"Cannot plot nvdim={self.data.nvdim} field."
            raise ValueError(msg)

        if plot is None:
            plot = k3d.plot()
            plot.display()

        if filter_field is not None and filter_field.nvdim != 1:
            msg = f"Cannot use nvdim={self.data.nvdim} filter_field."
            raise ValueError(msg)

        if multiplier is None:
            multiplier = uu.si_max_multiplier(self.data.mesh.region.edges)

        if interactive_field is not None:
            plot.camera_auto_fit = False

            objects_to_be_removed = []
            for i in plot.objects:
                if i.name != "total_region":
                    objects_to_be_removed.append(i)
            for i in objects_to_be_removed:
                plot -= i

            if not any(o.name == "total_region" for o in plot.objects):
                interactive_field.mesh.region.k3d(
                    plot=plot, multiplier=multiplier, name="total_region", opacity=0.025
                )

        plot_array = np.copy(self.data.array)  # make a deep copy
        plot_array = plot_array[..., 0]  # remove an empty dimension

        # All values must be in (1, 255) -> (1, n-1), for n=256 range, with
        # maximum n=256. This is the limitation of k3d.voxels(). Voxels where
        # values are zero, are invisible.
        plot_array = plot_util.normalise_to_range(plot_array, (1, 255))
        # Remove voxels where filter_field = 0.
        if filter_field is not None:
            for i in self.data.mesh.indices:
                if filter_field(self.data.mesh.index2point(i)) == 0:
                    plot_array[i] = 0
        plot_array = np.swapaxes(plot_array, 0, 2)  # k3d: arrays are (z, y, x)
        plot_array = plot_array.astype(np.uint8)  # to avoid k3d warning

        cmap = matplotlib.colormaps[cmap]
        cmap_int = []
        for i in range(cmap.N):
            rgb = cmap(i)[:3]
            cmap_int.append(int(matplotlib.colors.rgb2hex(rgb)[1:], 16))

        bounds = [
            i
            for sublist in zip(
                np.divide(self.data.mesh.region.pmin, multiplier),
                np.divide(self.data.mesh.region.pmax, multiplier),
            )
            for i in sublist
        ]

        plot += k3d.voxels(
            plot_array, color_map=cmap_int, bounds=bounds, outlines=False, **kwargs
        )

        plot.axes = [
            rf"{dim}\,(\text{{{uu.rsi_prefixes[multiplier]}{unit}}})"
            for dim, unit in zip(
                self.data.mesh.region.dims, self.data.mesh.region.units
            )
        ]

    def vector(
        self,
        plot=None,
        color_field=None,
        cmap="cividis",
        head_size=1,
        points=True,
        point_size=None,
        vector_multiplier=None,
        multiplier=None,
        interactive_field=None,
        **kwargs,
    ):
        """``k3d`` plot of a vector field.

        If ``plot`` is not passed, ``k3d.Plot`` object is created
        automatically. By passing ``color_field`` vectors are coloured
        according to the values of that field. The colormap can be specified
        using ``cmap`` argument. The head size of vectors can be changed using
        ``head_size``. The size of the plotted vectors is computed
        automatically in order to fit the plot. However, it can be adjusted
        using ``vector_multiplier``.

        By default both vectors and points, corresponding to discretisation
        cell coordinates, are plotted. They can be removed from the plot by
        passing ``points=False``. The size of the points are calculated
        automatically, but it can be adjusted with ``point_size``.

        It is often the case that the object size is either small (e.g. on a
        nanoscale) or very large (e.g. in units of kilometers). Accordingly,
        ``multiplier`` can be passed as :math:`10^{n}`, where :math:`n` is a
        multiple of 3 (..., -6, -3, 0, 3, 6,...). According to that value, the
        axes will be scaled and appropriate units shown. For instance, if
        ``multiplier=1e-9`` is passed, all axes will be divided by
        :math:`1\\,\\text{nm}` and :math:`\\text{nm}` units will be used as
        axis labels. If ``multiplier`` is not passed, the best one is
        calculated internally.

        For interactive plots the field itself, before being sliced with the
        field, must be passed as ``interactive_field``. For example, if
        ``field.sel(z=(0, 1))`` is plotted, ``interactive_field=field`` must be
        passed. In addition, ``k3d.plot`` object cannot be created internally
        and it must be passed and displayed by the user.

        This method is based on ``k3d.voxels``, so any keyword arguments
        accepted by it can be passed (e.g. ``wireframe``).

        Parameters
        ----------
        plot : k3d.Plot, optional

            Plot to which the plot is added. Defaults to ``None`` - plot is
            created internally. This is not true in the case of an interactive
            plot, when ``plot`` must be created externally.

        color_field : discretisedfield.Field, optional

            Scalar field. Vectors are coloured according to the values of
            ``color_field``. Defaults to ``None``.

        cmap : str, optional

            Colormap.

        head_size : int, optional

            The size of vector heads. Defaults to ``None``.

        points : bool, optional

            If ``True``, points are shown together with vectors. Defaults to
            ``True``.

        point_size : int, optional

            The size of the points if shown in the plot. Defaults to ``None``.

        vector_multiplier : numbers.Real, optional

            All vectors are divided by this value before being plotted.
            Defaults to ``None``.

        multiplier : numbers.Real, optional

            Axes multiplier. Defaults to ``None``.

        interactive_field : discretisedfield.Field, optional

            The whole field object (before any slices) used for interactive
            plots. Defaults to ``None``.

        Raises
        ------
        ValueError

            If the dimension of the field is not 3.

        Examples
        --------
        1. Visualising the vector field using ``k3d``.

        >>> import discretisedfield as df
        ...
        >>> p1 = (0, 0, 0)
        >>> p2 = (100, 100, 100)
        >>> n = (10, 10, 10)
        >>> mesh = df.Mesh(p1=p1, p2=p2, n=n)
        >>> field = df.Field(mesh, nvdim=3, value=(0, 0, 1))
        ...
        >>> field.k3d.vector()
        Plot(...)

        """

        if self.data.nvdim != 3:
            msg = f"Cannot plot nvdim={self.data.nvdim} field."
            raise ValueError(msg)

        if plot is None:
            plot = k3d.plot()
            plot.display()

        if color_field is not None and color_field.nvdim != 1:
            msg = f"Cannot use nvdim={self.data.nvdim} color_field."
            raise ValueError(msg)

        if multiplier is None:
            multiplier = uu.si_max_multiplier(self.data.mesh.region.edges)

        if interactive_field is not None:
            plot.camera_auto_fit = False

            objects_to_be_removed = []
            for i in plot.objects:
                if i.name != "total_region":
                    objects_to_be_removed.append(i)
            for i in objects_to_be_removed:
                plot -= i

            if not any(o.name == "total_region" for o in plot.objects):
                interactive_field.mesh.region.k3d(
                    plot=plot, multiplier=multiplier, name="total_region", opacity=0.025
                )

        coordinates, vectors, color_values = [], [], []
        norm_field = self.data.norm  # assigned to be computed only once
        for point, value in zip(self.data.mesh, self.data):
            if norm_field(point) != 0:
                coordinates.append(point)
                vectors.append(value)
                if color_field is not None:
                    # scalar color_field.__call__ returns an array with a single element
                    color_values.append(color_field(point)[0])

        if color_field is not None:
            color_values = plot_util.normalise_to_range(color_values, (0, 255))

            # Generate double pairs (body, head) for colouring vectors.
            cmap = matplotlib.colormaps[cmap]
            cmap_int = []
            for i in range(cmap.N):
                rgb = cmap(i)[:3]
                cmap_int.append(int(matplotlib.colors.rgb2hex(rgb)[1:], 16))

            colors = []
            for cval in color_values:
                colors.append(2 * (cmap_int[cval],))
        else:
            # Uniform colour.
            colors = len(vectors) * ([2 * (plot_util.cp_int[1],)])

        coordinates = np.array(coordinates)
        vectors = np.array(vectors)

        if vector_multiplier is None:
            vector_multiplier = (
                vectors.max() / np.divide(self.data.mesh.cell, multiplier).min()
            )

        coordinates = np.divide(coordinates, multiplier)
        vectors = np.divide(vectors, vector_multiplier)

        coordinates = coordinates.astype(np.float32)
        vectors = vectors.astype(np.float32)

        plot += k3d.vectors(
            coordinates - 0.5 * vectors,
            vectors,
            colors=colors,
            head_size=head_size,
            **kwargs,
        )

        if points:
            if point_size is None:
                # If undefined, the size of the point is 1/4 of the smallest
                # cell dimension.
                point_size = np.divide(self.data.mesh.cell, multiplier).min() / 4

            plot += k3d.points(
                coordinates, color=plot_util.cp_int[0], point_size=point_size
            )

        plot.axes = [
            rf"{dim}\,(\text{{{uu.rsi_prefixes[multiplier]}{unit}}})"
            for dim, unit in zip(
                self.data.mesh.region.dims, self.data.mesh.region.units
            )
        ]

    def __dir__(self):
        dirlist = dir(self.__class__)
        if self.data.nvdim == 1:
            need_removing = ["k3d_vector"]
        else:
            need_removing = ["k3d_scalar", "k3d_nonzero"]

        for attr in need_removing:
            dirlist.remove(attr)

        return dirlist
