"""Matplotlib based plotting."""

from discretisedfield.plotting import util as util
from discretisedfield.plotting.hv import Hv as Hv
from discretisedfield.plotting.k3d_field import K3dField as K3dField
from discretisedfield.plotting.k3d_mesh import K3dMesh as K3dMesh
from discretisedfield.plotting.k3d_region import K3dRegion as K3dRegion
from discretisedfield.plotting.mpl import add_colorwheel as add_colorwheel
from discretisedfield.plotting.mpl_field import MplField as MplField
from discretisedfield.plotting.mpl_mesh import MplMesh as MplMesh
from discretisedfield.plotting.mpl_region import MplRegion as MplRegion
from discretisedfield.plotting.pyvista_field import PyVistaField as PyVistaField
from discretisedfield.plotting.pyvista_mesh import PyVistaMesh as PyVistaMesh
from discretisedfield.plotting.pyvista_region import PyVistaRegion as PyVistaRegion
