"""Matplotlib-based plotting."""

import warnings

import matplotlib.pyplot as plt
import numpy as np
import ubermagutil.units as uu
from mpl_toolkits.axes_grid1 import Size, make_axes_locatable

import discretisedfield.plotting.util as plot_util
from discretisedfield.plotting.mpl import Mpl, add_colorwheel


class MplField(Mpl):
    """Matplotlib-based plotting methods.

    Before the field can be plotted, it must be ensured that it is defined on two
    dimensional geometry. This class should not be accessed directly. Use
    ``field.mpl`` to use the different plotting methods.

    Parameters
    ----------
    field : df.Field

        Field defined on a two-dimensional plane.

    Raises
    ------
    ValueError

        If the field has not a two-dimensional plane.

    .. seealso::

        py:func:`~discretisedfield.Field.mpl`

    """

    def __init__(self, field):
        if field.mesh.region.ndim != 2:
            raise RuntimeError(
                "Only fields on 2d meshes can be plotted with matplotlib, not"
                f" {field.mesh.region.ndim=}."
            )

        self.field = field

    def __call__(
        self,
        ax=None,
        figsize=None,
        multiplier=None,
        scalar_kw=None,
        vector_kw=None,
        filename=None,
    ):
        """Plot the field on a plane.

        This is a convenience method used for quick plotting, and it combines
        ``discretisedfield.plotting.Mpl.scalar`` and
        ``discretisedfield.plotting.Mpl.vector`` methods. Depending on the
        dimensionality of the field's value, it automatically determines what
        plot is going to be shown. For a scalar field, only
        ``discretisedfield.plotting.Mpl.scalar`` is used, whereas for a vector
        field, both ``discretisedfield.plotting.Mpl.scalar`` and
        ``discretisedfield.plotting.Mpl.vector`` plots are shown so that vector
        plot visualises the in-plane components of the vector and scalar plot
        encodes the out-of-plane component.

        All the default values can be changed by passing dictionaries to
        ``scalar_kw`` and ``vector_kw``, which are then used in subplots. The
        way parameters of this function are used to create plots can be
        understood with the following code snippet. ``scalar_field`` and
        ``vector_field`` are computed internally (based on the dimension of the
        field).

        .. code-block::

            if ax is None:
                fig = plt.figure(figsize=figsize)
                ax = fig.add_subplot(111)

            if scalar_field is not None:
                scalar_field.mpl.scalar(ax=ax, multiplier=multiplier,
                                        **scalar_kw)
            if vector_field is not None:
                vector_field.mpl.vector(ax=ax, multiplier=multiplier,
                                        **vector_kw)

            if filename is not None:
                plt.savefig(filename, bbox_inches='tight', pad_inches=0.02)
            ```

        Therefore, to understand the meaning of the keyword arguments which can be
        passed to this method, please refer to ``discretisedfield.plotting.Mpl.scalar``
        and ``discretisedfield.plotting.Mpl.vector`` documentation. Filtering of the
        scalar component is applied by default (using the norm for vector fields,
        absolute values for scalar fields). To turn of filtering add ``{'filter_field':
        None}`` to ``scalar_kw``.

        Example
        -------
        .. plot:: :context: close-figs

            1. Visualising the field using ``matplotlib``.

            >>> import discretisedfield as df
            ...
            >>> p1 = (0, 0, 0)
            >>> p2 = (100, 100, 100)
            >>> n = (10, 10, 10)
            >>> mesh = df.Mesh(p1=p1, p2=p2, n=n)
            >>> field = df.Field(mesh, nvdim=3, value=(1, 2, 0))
            >>> field.sel(z=50).resample(n=(5, 5)).mpl()

        .. seealso::

            :py:func:`~discretisedfield.plotting.Mpl.scalar`
            :py:func:`~discretisedfield.plotting.Mpl.vector`

        """
        ax = self._setup_axes(ax, figsize)

        multiplier = self._setup_multiplier(multiplier)

        scalar_kw = {} if scalar_kw is None else scalar_kw.copy()
        vector_kw = {} if vector_kw is None else vector_kw.copy()
        vector_kw.setdefault("use_color", False)
        vector_kw.setdefault("colorbar", False)

        # Set up default scalar and vector fields.
        if self.field.nvdim == 1:
            scalar_field = self.field
            vector_field = None

        elif self.field.nvdim == 2:
            scalar_field = None
            vector_field = self.field

        elif self.field.nvdim == 3:
            vector_field = self.field
            # find vector components pointing along the two axes 0 and 1
            vdims = [
                self.field._r_dim_mapping[self.field.mesh.region.dims[0]],
                self.field._r_dim_mapping[self.field.mesh.region.dims[1]],
            ]
            # find the third vector component for the scalar plot
            scalar_vdim = (set(self.field.vdims) - set(vdims)).pop()
            scalar_field = getattr(self.field, scalar_vdim)
            scalar_kw.setdefault(
                "colorbar_label",
                f"{scalar_vdim}-component",
            )
        else:
            raise RuntimeError(
                "The `mpl()` function cannot determine unique "
                f"directions to plot for {self.field.nvdim=}."
            )

        scalar_kw.setdefault("filter_field", self.field._valid_as_field)

        if scalar_field is not None:
            scalar_field.mpl.scalar(ax=ax, multiplier=multiplier, **scalar_kw)
        if vector_field is not None:
            vector_field.mpl.vector(ax=ax, multiplier=multiplier, **vector_kw)

        self._axis_labels(ax, multiplier)

        self._savefig(filename)

    def scalar(
        self,
        ax=None,
        figsize=None,
        multiplier=None,
        filter_field=None,
        colorbar=True,
        colorbar_label="",
        filename=None,
        symmetric_clim=False,
        **kwargs,
    ):
        r"""Plot the scalar field on a plane.

        Before the field can be plotted, it must be sliced with a plane (e.g.
        ``field.sel('z')``, assuming the geometry has three dimensions). In addition,
        field must be a scalar field (``nvdim=1``). Otherwise, ``ValueError`` is raised.
        ``mpl.scalar`` adds the plot to ``matplotlib.axes.Axes`` passed via ``ax``
        argument. If ``ax`` is not passed, ``matplotlib.axes.Axes`` object is created
        automatically and the size of a figure can be specified using
        ``figsize``. By passing ``filter_field`` the points at which the pixels
        are not coloured can be determined. More precisely, only those
        discretisation cells where ``filter_field != 0`` are plotted. Colorbar
        is shown by default and it can be removed from the plot by passing
        ``colorbar=False``. The label for the colorbar can be defined by
        passing ``colorbar_label`` as a string. If ``symmetric_clim=True`` is
        passed colorbar limits are internally computed to be symmetric around
        zero. This is most useful in combination with a diverging colormap.
        ``clim`` takes precedence over ``symmetric_clim`` if both are
        specified.

        It is often the case that the region size is small (e.g. on a
        nanoscale) or very large (e.g. in units of kilometers). Accordingly,
        ``multiplier`` can be passed as :math:`10^{n}`, where :math:`n` is a
        multiple of 3  (..., -6, -3, 0, 3, 6,...). According to that value, the
        axes will be scaled and appropriate units shown. For instance, if
        ``multiplier=1e-9`` is passed, all mesh points will be divided by
        :math:`1\,\text{nm}` and :math:`\text{nm}` units will be used as
        axis labels. If ``multiplier`` is not passed, the best one is
        calculated internally. The plot can be saved as a PDF when ``filename``
        is passed.

        This method plots the field using ``matplotlib.pyplot.imshow``
        function, so any keyword arguments accepted by it can be passed (for
        instance, ``cmap`` - colormap, ``clim`` - colorbar limits, etc.).

        Parameters
        ----------
        ax : matplotlib.axes.Axes, optional

            Axes to which the field plot is added. Defaults to ``None`` - axes
            are created internally.

        figsize : (2,) tuple, optional

            The size of a created figure if ``ax`` is not passed. Defaults to
            ``None``.

        filter_field : discretisedfield.Field, optional

            A scalar field used for determining whether certain discretisation
            cells are coloured. More precisely, only those discretisation cells
            where ``filter_field != 0`` are plotted. Defaults to ``None``.

        colorbar : bool, optional

            If ``True``, colorbar is shown and it is hidden when ``False``.
            Defaults to ``True``.

        colorbar_label : str, optional

            Colorbar label. Defaults to ``None``.

        symmetric_clim : bool, optional

            Automatic ``clim`` symmetric around 0. Defaults to False.

        multiplier : numbers.Real, optional

            ``multiplier`` can be passed as :math:`10^{n}`, where :math:`n` is
            a multiple of 3 (..., -6, -3, 0, 3, 6,...). According to that
            value, the axes will be scaled and appropriate units shown. For
            instance, if ``multiplier=1e-9`` is passed, the mesh points will be
            divided by :math:`1\\,\\text{nm}` and :math:`\\text{nm}` units will
            be used as axis labels. Defaults to ``None``.

        filename : str, optional

            If filename is passed, the plot is saved. Defaults to ``None``.

        Raises
        ------
        ValueError

            If the field has not been sliced, its dimension is not 1, or the
            dimension of ``filter_field`` is not 1.

        Example
        -------
        .. plot::
            :context: close-figs

            1. Visualising the scalar field using ``matplotlib``.

            >>> import discretisedfield as df
            ...
            >>> p1 = (0, 0, 0)
            >>> p2 = (100, 100, 100)
            >>> n = (10, 10, 10)
            >>> mesh = df.Mesh(p1=p1, p2=p2, n=n)
            >>> field = df.Field(mesh, nvdim=1, value=2)
            ...
            >>> field.sel('y').mpl.scalar()

        .. seealso:: :py:func:`~discretisedfield.plotting.Mpl.vector`

        """
        if self.field.nvdim > 1:
            raise RuntimeError(f"Cannot plot {self.field.nvdim=} field.")

        ax = self._setup_axes(ax, figsize)

        multiplier = self._setup_multiplier(multiplier)
        extent = self._extent(multiplier)

        values = self.field.array.copy().reshape(self.field.mesh.n)

        if filter_field is None:
            filter_field = self.field._valid_as_field

        self._filter_values(filter_field, values)

        if symmetric_clim and "clim" not in kwargs:
            vmin = np.min(values, where=~np.isnan(values), initial=0)
            vmax = np.max(values, where=~np.isnan(values), initial=0)
            vmax_abs = max(abs(vmin), abs(vmax))
            kwargs["clim"] = (-vmax_abs, vmax_abs)

        cp = ax.imshow(np.transpose(values), origin="lower", extent=extent, **kwargs)

        if colorbar:
            self._add_colorbar(ax, cp, colorbar_label)

        self._axis_labels(ax, multiplier)

        self._savefig(filename)

    def lightness(
        self,
        ax=None,
        figsize=None,
        multiplier=None,
        filter_field=None,
        lightness_field=None,
        clim=None,
        colorwheel=True,
        colorwheel_xlabel=None,
        colorwheel_ylabel=None,
        colorwheel_args=None,
        filename=None,
        **kwargs,
    ):
        """Lightness plots.

        Uses HSV to show in-plane angle and lightness for out-of-plane (3d) or
        norm (1d/2d) of the field. By passing a scalar field as
        ``lightness_field``, lightness component is can be specified
        independently of the field dimension. Most parameters are the same as
        for ``discretisedfield.plotting.Mpl.scalar``. Colormap cannot be passed
        using ``kwargs``. Instead of having a colorbar a ``colorwheel`` is
        displayed by default.

        Parameters
        ----------
        lightness_field : discretisedfield.Field, optional

            A scalar field used for adding lightness to the color. Field values
            are hue. Defaults to ``None``.

        colorwheel : bool, optional

            To control if a colorwheel is shown, defaults to ``True``.

        colorwheel_xlabel : str, optional

            If specified, the string and an arrow are plotted onto the
            colorwheel (in x-direction).

        colorwheel_ylabel : str, optional

            If specified, the string and an arrow are plotted onto the
            colorwheel (in y-direction).

        colorwheel_args : dict, optional

            Additional keyword arguments to pass to the colorwheel function.
            For details see ``discretisedfield.plotting.Mpl.colorwheel`` and
            ``mpl_toolkits.axes_grid1.inset_locator.inset_axes``.

        Examples
        --------
        .. plot::
            :context: close-figs

            1. Visualising the scalar field using ``matplotlib``.

            >>> import discretisedfield as df
            ...
            >>> p1 = (0, 0, 0)
            >>> p2 = (100, 100, 100)
            >>> n = (10, 10, 10)
            >>> mesh = df.Mesh(p1=p1, p2=p2, n=n)
            >>> field = df.Field(mesh, nvdim=3, value=(1, 2, 3))
            ...
            >>> field.sel('z').mpl.lightness()

        """
        if self.field.nvdim == 2:
            if lightness_field is None:
                lightness_field = self.field.norm
            if filter_field is None:
                filter_field = self.field._valid_as_field
            x = self.field._r_dim_mapping[self.field.mesh.region.dims[0]]
            y = self.field._r_dim_mapping[self.field.mesh.region.dims[1]]
            return plot_util.inplane_angle(self.field, x, y).mpl.lightness(
                ax=ax,
                figsize=figsize,
                multiplier=multiplier,
                filter_field=filter_field,
                lightness_field=lightness_field,
                clim=clim,
                colorwheel=colorwheel,
                colorwheel_xlabel=colorwheel_xlabel,
                colorwheel_ylabel=colorwheel_ylabel,
                colorwheel_args=colorwheel_args,
                filename=filename,
                **kwargs,
            )
        elif self.field.nvdim == 3:
            if lightness_field is None:
                if not self.field.vdim_mapping:
                    raise ValueError("'vdim_mapping' is required for lightness plots.")
                # find vector components pointing along the two axes 0 and 1
                vdims = [
                    self.field._r_dim_mapping[self.field.mesh.region.dims[0]],
                    self.field._r_dim_mapping[self.field.mesh.region.dims[1]],
                ]
                # find the third vector component for lightness
                lightness_vdim = (set(self.field.vdims) - set(vdims)).pop()
                lightness_field = getattr(self.field, lightness_vdim)
            if filter_field is None:
                filter_field = self.field._valid_as_field
            x = self.field._r_dim_mapping[self.field.mesh.region.dims[0]]
            y = self.field._r_dim_mapping[self.field.mesh.region.dims[1]]
            return plot_util.inplane_angle(self.field, x, y).mpl.lightness(
                ax=ax,
                figsize=figsize,
                multiplier=multiplier,
                filter_field=filter_field,
                lightness_field=lightness_field,
                clim=clim,
                colorwheel=colorwheel,
                colorwheel_xlabel=colorwheel_xlabel,
                colorwheel_ylabel=colorwheel_ylabel,
                colorwheel_args=colorwheel_args,
                filename=filename,
                **kwargs,
            )
        elif self.field.nvdim > 3:
            raise RuntimeError(
                f"Only fields with `nvdim<=3` can be plotted. Not {self.field.nvdim=}"
            )

        ax = self._setup_axes(ax, figsize)

        if filter_field is None:
            filter_field = self.field._valid_as_field

        multiplier = self._setup_multiplier(multiplier)
        extent = self._extent(multiplier)

        if lightness_field is None:
            lightness_field = self.field.norm
        elif lightness_field.nvdim != 1:
            raise ValueError(f"Cannot use {lightness_field.nvdim=} lightness_field.")
        elif lightness_field.mesh.region.ndim != 2:
            raise ValueError(
                "'lightness_field' must be defined on a 2d mesh, not"
                f" {lightness_field.mesh.region.ndim=}."
            )

        values = self.field.array.copy().reshape(self.field.mesh.n)

        if not np.array_equal(lightness_field.mesh.n, self.field.mesh.n):
            lightness_field = lightness_field.resample(self.field.mesh.n)
        lightness = lightness_field.array.reshape(self.field.mesh.n)

        rgb = plot_util.hls2rgb(
            hue=values, lightness=lightness, saturation=None, lightness_clim=clim
        ).squeeze()
        self._filter_values(filter_field, rgb)

        # alpha channel to hide points with nan values (filter field)
        # all three rgb values are set to nan
        rgba = np.empty((*rgb.shape[:-1], 4))
        rgba[..., :3] = rgb
        rgba[..., 3] = 1.0
        # nan -> zero with alpha=0 to avoid cast warning
        rgba[np.isnan(rgb[..., 0])] = 0

        kwargs["cmap"] = "hsv"  # only hsv cmap allowed
        ax.imshow(
            np.transpose(rgba, (1, 0, 2)), origin="lower", extent=extent, **kwargs
        )

        if colorwheel:
            if colorwheel_args is None:
                colorwheel_args = {}
            cw_ax = add_colorwheel(ax, **colorwheel_args)
            if colorwheel_xlabel is not None:
                cw_ax.arrow(100, 100, 60, 0, width=5, fc="w", ec="w")
                cw_ax.annotate(colorwheel_xlabel, (115, 140), c="w")
            if colorwheel_ylabel is not None:
                cw_ax.arrow(100, 100, 0, -60, width=5, fc="w", ec="w")
                cw_ax.annotate(colorwheel_ylabel, (40, 80), c="w")

        self._axis_labels(ax, multiplier)

        self._savefig(filename)

    def vector(
        self,
        ax=None,
        figsize=None,
        multiplier=None,
        vdims=None,
        use_color=True,
        color_field=None,
        colorbar=True,
        colorbar_label="",
        filename=None,
        **kwargs,
    ):
        r"""Plot the vector field on a plane.

        Before the field can be plotted, it must be sliced to a plane (e.g.
        ``field.sel('z')``, assuming the geometry has 3 dimensions). In addition, field
        must be a vector field of dimensionality two or three (i.e. ``nvdim=2`` or
        ``nvdim=3``). Otherwise, ``ValueError`` is raised. ``mpl.vector`` adds the plot
        to ``matplotlib.axes.axes`` passed via ``ax`` argument. If ``ax`` is not passed,
        ``matplotlib.axes.axes`` object is created automatically and the size of a
        figure can be specified using ``figsize``. By default, plotted vectors are
        coloured according to the out-of-plane component of the vectors if the field has
        ``nvdim=3``. This can be changed by passing ``color_field`` with
        ``nvdim=1``. To disable colouring of the plot, ``use_color=False`` can be
        passed. A uniform vector colour can be obtained by specifying
        ``use_color=false`` and ``color=color`` which is passed to matplotlib.
        Colorbar is shown by default and it can be removed from the plot by
        passing ``colorbar=False``. The label for the colorbar can be defined
        by passing ``colorbar_label`` as a string.

        It is often the case that the region size is small (e.g. on a
        nanoscale) or very large (e.g. in units of kilometers). accordingly,
        ``multiplier`` can be passed as :math:`10^{n}`, where :math:`n` is a
        multiple of 3  (..., -6, -3, 0, 3, 6,...). according to that value, the
        axes will be scaled and appropriate units shown. For instance, if
        ``multiplier=1e-9`` is passed, all mesh points will be divided by
        :math:`1\,\text{nm}` and :math:`\text{nm}` units will be used as
        axis labels. If ``multiplier`` is not passed, the best one is
        calculated internally. The plot can be saved as a pdf when ``filename``
        is passed.

        This method plots the field using ``matplotlib.pyplot.quiver``
        function, so any keyword arguments accepted by it can be passed (for
        instance, ``cmap`` - colormap, ``clim`` - colorbar limits, etc.). In
        particular, there are cases when ``matplotlib`` fails to find optimal
        scale for plotting vectors. More precisely, sometimes vectors appear
        too large in the plot. This can be resolved by passing ``scale``
        argument, which scales all vectors in the plot. In other words, larger
        ``scale``, smaller the vectors and vice versa. Please note that scale
        can be in a very large range (e.g. 1e20).

        Parameters
        ----------
        ax : matplotlib.axes.axes, optional

            Axes to which the field plot is added. defaults to ``None`` - axes
            are created internally.

        figsize : tuple, optional

            The size of a created figure if ``ax`` is not passed. defaults to
            ``None``.

        vdims : List[str], optional

            Names of the components to be used for the x and y component of the plotted
            arrows. This information is used to associate field components and spatial
            directions. Optionally, one of the list elements can be ``None`` if the
            field has no component in that direction. ``vdims`` is required for 2d
            vector fields.

        color_field : discretisedfield.field, optional

            A scalar field used for colouring the vectors. defaults to ``None``
            and vectors are coloured according to their out-of-plane
            components.

        colorbar : bool, optional

            If ``true``, colorbar is shown and it is hidden when ``false``.
            defaults to ``true``.

        colorbar_label : str, optional

            Colorbar label. Defaults to ``None``.

        multiplier : numbers.real, optional

            ``multiplier`` can be passed as :math:`10^{n}`, where :math:`n` is
            a multiple of 3 (..., -6, -3, 0, 3, 6,...). According to that
            value, the axes will be scaled and appropriate units shown. For
            instance, if ``multiplier=1e-9`` is passed, the mesh points will be
            divided by :math:`1\,\text{nm}` and :math:`\text{nm}` units will
            be used as axis labels. defaults to ``None``.

        filename : str, optional

            If filename is passed, the plot is saved. defaults to ``None``.

        Raises
        ------
        ValueError

            If the field has not been sliced, its dimension is not 3, or the
            dimension of ``color_field`` is not 1.

        Example
        -------
        .. plot::
            :context: close-figs

            1. Visualising the vector field using ``matplotlib``.

            >>> import discretisedfield as df
            ...
            >>> p1 = (0, 0, 0)
            >>> p2 = (100, 100, 100)
            >>> n = (10, 10, 10)
            >>> mesh = df.Mesh(p1=p1, p2=p2, n=n)
            >>> field = df.Field(mesh, nvdim=3, value=(1.1, 2.1, 3.1))
            ...
            >>> field.sel('y').mpl.vector()

        .. seealso:: :py:func:`~discretisedfield.field.mpl_scalar`

        """
        if vdims is None and not self.field.vdim_mapping:
            raise ValueError("'vdims' is required for a field without 'vdim_mapping'.")
        ax = self._setup_axes(ax, figsize)

        multiplier = self._setup_multiplier(multiplier)

        points1 = self.field.mesh.cells[0] / multiplier
        points2 = self.field.mesh.cells[1] / multiplier

        values = self.field.array.copy()
        self._filter_values(self.field._valid_as_field, values)

        if vdims is None:
            # find vector components pointing along the two axes 0 and 1
            vdims = [
                self.field._r_dim_mapping[self.field.mesh.region.dims[0]],
                self.field._r_dim_mapping[self.field.mesh.region.dims[1]],
            ]
        elif len(vdims) != 2:
            raise ValueError(f"{vdims=} must contain two elements.")

        arrow_x = self.field.vdims.index(vdims[0]) if vdims[0] else None
        arrow_y = self.field.vdims.index(vdims[1]) if vdims[1] else None
        if arrow_x is None and arrow_y is None:
            raise ValueError(f"At least one element of {vdims=} must be not None.")

        quiver_args = [
            points1,
            points2,
            np.transpose(
                values[..., arrow_x]
                if arrow_x is not None
                else np.zeros(self.field.mesh.n)
            ),
            np.transpose(
                values[..., arrow_y]
                if arrow_y is not None
                else np.zeros(self.field.mesh.n)
            ),
        ]

        if use_color and color_field is None:
            if self.field.nvdim != 3:
                warnings.warn(
                    "Automatic coloring is only supported for 3d"
                    f' fields. Ignoring "{use_color=}".',
                    stacklevel=2,
                )
                use_color = False
            else:
                # find the third vector component for colouring
                color_vdim = (set(self.field.vdims) - set(vdims)).pop()
                color_field = getattr(self.field, color_vdim)

        if use_color:
            if color_field.nvdim != 1:
                raise ValueError(f"Cannot use {color_field.nvdim=}.")
            if color_field.mesh.region.ndim != 2:
                raise ValueError(
                    "'color_field' must be defined on a 2d mesh, not"
                    f" {color_field.mesh.region.ndim=}."
                )
            if not np.array_equal(color_field.mesh.n, self.field.mesh.n):
                color_field = color_field.resample(self.field.mesh.n)
            quiver_args.append(color_field.array.reshape(self.field.mesh.n).transpose())

        cp = ax.quiver(*quiver_args, pivot="mid", **kwargs)

        ax.set_aspect("equal")
        if colorbar and use_color:
            self._add_colorbar(ax, cp, colorbar_label)

        self._axis_labels(ax, multiplier)

        self._savefig(filename)

    def contour(
        self,
        ax=None,
        figsize=None,
        multiplier=None,
        filter_field=None,
        colorbar=True,
        colorbar_label=None,
        filename=None,
        **kwargs,
    ):
        r"""Contour line plot.

        Before the field can be plotted, it must be sliced to give a plane (e.g.
        ``field.sel('z')``, assuming ``field`` has three geometrical dimensions). In
        addition, field must be a scalar field (``nvdim=1``). Otherwise, ``ValueError``
        is raised. ``mpl.contour`` adds the plot to ``matplotlib.axes.Axes`` passed via
        ``ax`` argument. If ``ax`` is not passed, ``matplotlib.axes.Axes`` object is
        created automatically and the size of a figure can be specified using
        ``figsize``. By passing ``filter_field`` the points at which the pixels
        are not coloured can be determined. More precisely, only those
        discretisation cells where ``filter_field != 0`` are plotted. Colorbar
        is shown by default and it can be removed from the plot by passing
        ``colorbar=False``. The label for the colorbar can be defined by
        passing ``colorbar_label`` as a string.

        It is often the case that the region size is small (e.g. on a
        nanoscale) or very large (e.g. in units of kilometers). Accordingly,
        ``multiplier`` can be passed as :math:`10^{n}`, where :math:`n` is a
        multiple of 3  (..., -6, -3, 0, 3, 6,...). According to that value, the
        axes will be scaled and appropriate units shown. For instance, if
        ``multiplier=1e-9`` is passed, all mesh points will be divided by
        :math:`1,\text{nm}` and :math:`\text{nm}` units will be used as
        axis labels. If ``multiplier`` is not passed, the best one is
        calculated internally. The plot can be saved as a PDF when ``filename``
        is passed.

        This method plots the field using ``matplotlib.pyplot.contour``
        function, so any keyword arguments accepted by it can be passed (for
        instance, ``levels`` - number of levels, etc.).

        Parameters
        ----------
        ax : matplotlib.axes.Axes, optional

            Axes to which the field plot is added. Defaults to ``None`` - axes
            are created internally.

        figsize : (2,) tuple, optional

            The size of a created figure if ``ax`` is not passed. Defaults to
            ``None``.

        filter_field : discretisedfield.Field, optional

            A scalar field used for determining whether certain discretisation
            cells are coloured. More precisely, only those discretisation cells
            where ``filter_field != 0`` are plotted. Defaults to ``None``.

        colorbar : bool, optional

            If ``True``, colorbar is shown and it is hidden when ``False``.
            Defaults to ``True``.

        colorbar_label : str, optional

            Colorbar label. Defaults to ``None``.

        multiplier : numbers.Real, optional

            ``multiplier`` can be passed as :math:`10^{n}`, where :math:`n` is
            a multiple of 3 (..., -6, -3, 0, 3, 6,...). According to that
            value, the axes will be scaled and appropriate units shown. For
            instance, if ``multiplier=1e-9`` is passed, the mesh points will be
            divided by :math:`1\,\text{nm}` and :math:`\text{nm}` units will
            be used as axis labels. Defaults to ``None``.

        filename : str, optional

            If filename is passed, the plot is saved. Defaults to ``None``.

        Raises
        ------
        ValueError

            If the field has not 2D, its dimension is not 1, or the dimension of
            ``filter_field`` is not 1.

        Example
        -------
        .. plot::
            :context: close-figs

            1. Visualising the scalar field using ``matplotlib``.

            >>> import discretisedfield as df
            >>> import math
            ...
            >>> p1 = (0, 0, 0)
            >>> p2 = (100, 100, 100)
            >>> n = (10, 10, 10)
            >>> mesh = df.Mesh(p1=p1, p2=p2, n=n)
            >>> def init_value(point):
            ...     x, y, z = point
            ...     return math.sin(x) + math.sin(y)
            >>> field = df.Field(mesh, nvdim=1, value=init_value)
            >>> field.sel('z').mpl.contour()

        """
        if self.field.nvdim != 1:
            raise RuntimeError(f"Cannot plot nvdim={self.field.nvdim} field.")

        ax = self._setup_axes(ax, figsize)

        multiplier = self._setup_multiplier(multiplier)

        points1 = self.field.mesh.cells[0] / multiplier
        points2 = self.field.mesh.cells[1] / multiplier

        values = self.field.array.copy().reshape(self.field.mesh.n)

        if filter_field is None:
            filter_field = self.field._valid_as_field

        self._filter_values(filter_field, values)

        cp = ax.contour(points1, points2, np.transpose(values), **kwargs)
        ax.set_aspect("equal")

        if colorbar:
            self._add_colorbar(ax, cp, colorbar_label)

        self._axis_labels(ax, multiplier)

        self._savefig(filename)

    def _setup_multiplier(self, multiplier):
        return self.field.mesh.region.multiplier if multiplier is None else multiplier

    def _filter_values(self, filter_field, values):
        if filter_field is None:
            return values

        if filter_field.nvdim != 1:
            raise ValueError(f"Cannot use {filter_field.nvdim=}.")
        if filter_field.mesh.region.ndim != 2:
            raise ValueError(
                "'filter_field' must be defined on a 2d mesh, not"
                f" {filter_field.mesh.region.ndim=}."
            )

        if not np.array_equal(filter_field.mesh.n, self.field.mesh.n):
            filter_field = filter_field.resample(self.field.mesh.n)

        values[filter_field.array.reshape(self.field.mesh.n) == 0] = np.nan

    def _axis_labels(self, ax, multiplier):
        ax.set_xlabel(
            rf"{self.field.mesh.region.dims[0]}"
            rf" ({uu.rsi_prefixes[multiplier]}{self.field.mesh.region.units[0]})"
        )
        ax.set_ylabel(
            rf"{self.field.mesh.region.dims[1]}"
            rf" ({uu.rsi_prefixes[multiplier]}{self.field.mesh.region.units[1]})"
        )

    def _extent(self, multiplier):
        # Rescale about the origin to not keep the old centre point.
        # Example: Region(0, 50e-9) should become Region(0, 50) in nm and not being
        # centred around 25e-9.
        reference_point = (0, 0)  # 2d point because plotting requires 2d meshes
        rescaled_region = self.field.mesh.region.scale(1 / multiplier, reference_point)
        pmin = rescaled_region.pmin
        pmax = rescaled_region.pmax

        return [pmin[0], pmax[0], pmin[1], pmax[1]]

    def __dir__(self):
        dirlist = dir(self.__class__)

        for attr in ["vector"] if self.field.nvdim == 1 else ["scalar", "contour"]:
            dirlist.remove(attr)

        return dirlist

    def _add_colorbar(
        self,
        ax,
        cp,
        colorbar_label,
        min_height_inches=2.0,
        min_width_inches=0.35,
        min_pad_inches=0.1,
    ):
        """
        Adds a colorbar to the current plot with specified dimensions and padding.

        Parameters
        ----------
        ax : matplotlib.axes.Axes

            The parent axes to which the colorbar is added.

        cp : ScalarMappable

            The plot to which the colorbar is associated.

        colorbar_label : str

            Label for the colorbar. If None, no label is added.

        min_height_inches : float, optional

            Minimum height for the colorbar in inches. Default is 2.0 inches.

        min_width_inches : float, optional

            Minimum width for the colorbar in inches. Default is 0.35 inches.

        min_pad_inches : float, optional

            Minimum padding from the parent axes in inches. Default is 0.1 inches.

        """

        # Retrieve the figure associated with the axis
        fig = ax.figure
        # Extract figure dimensions in inches
        fig_width_inches, fig_height_inches = fig.get_size_inches()
        # Get position of the current axes (normalized to figure size)
        pos = ax.get_position()

        # Normalize height relative to ax
        min_height_norm = min_height_inches / (fig_height_inches * (pos.y1 - pos.y0))
        # Normalize width and padding relative to figure size
        min_width_norm = min_width_inches / fig_width_inches
        min_pad_norm = min_pad_inches / fig_width_inches

        # Decide on pad and width based on a threshold of 5% of the figure width
        if min_pad_norm > 0.05:
            pad_h = Size.Fixed(min_pad_inches)
        else:
            pad_h = Size.AxesX(ax, aspect=0.05)

        if min_width_norm > 0.05:
            width_h = Size.Fixed(min_width_inches)
        else:
            width_h = Size.AxesX(ax, aspect=0.05)

        # Determine the vertical aspect ratio for the colorbar
        v_aspect = min_height_norm if min_height_norm > 1 else 1

        # Check for any existing colorbars associated with the current axis
        existing_colorbars = [
            a for a in fig.get_axes() if f"cb_{id(ax)}" in a.get_label()
        ]

        # Create a divider for the axes to place the colorbar
        divider = make_axes_locatable(ax)

        # Define a unique label for the colorbar axis to prevent any overlaps
        cax = fig.add_axes(
            divider.get_position(), label=f"cb_{id(ax)}_{len(existing_colorbars)}"
        )

        # Update divider settings based on existing colorbars
        if len(existing_colorbars) == 0:
            h = [Size.AxesX(ax), pad_h, width_h]
            divider.set_horizontal(h)
        else:
            divider.new_horizontal(pad_h, pack_start=False)
            divider.new_horizontal(width_h, pack_start=False)

        # Set the vertical aspect for the divider
        v = [Size.AxesY(ax, aspect=v_aspect)]
        divider.set_vertical(v)

        # Set the location of the main plot's axes to its original position.
        # The main plot's axes will be placed at the starting (0,0) position
        # on the grid defined by the divider.
        ax.set_axes_locator(divider.new_locator(nx=0, ny=0))

        # Loop through any existing colorbars associated with the main axes.
        # Adjust their positions to accommodate the new colorbar.
        # Each colorbar is positioned two steps away on the x-axis
        # (e.g., main plot at 0, first colorbar at 2, second at 4, and so on).
        for i, cb in enumerate(existing_colorbars, start=1):
            cb.set_axes_locator(divider.new_locator(nx=2 * i, ny=0))

        # Set the position of the new colorbar (`cax`).
        # It will be placed next to the last existing colorbar or next
        # to the main plot if it's the first colorbar.
        cax.set_axes_locator(
            divider.new_locator(nx=2 * (len(existing_colorbars) + 1), ny=0)
        )

        # Create the colorbar with the provided ScalarMappable object
        cbar = plt.colorbar(cp, cax=cax)

        # Add a label to the colorbar if provided
        if colorbar_label is not None:
            cbar.ax.set_ylabel(colorbar_label)
