"""Holoviews-based plotting."""

import contextlib
import copy
import functools
import warnings

import holoviews as hv
import numpy as np
import xarray as xr

import discretisedfield as df
from .util import hv_key_dim

# HoloViews shows a warning about a deprecated call to unique when creating
# the dynamic map.
# The developers have confirmed, that this warning can be ignored
# and the problem will be fixed in the next HoloViews release.
# https://discourse.holoviz.org/t/futurewarning-when-creating-a-dynamicmap/6108
# The warnings filtering can be removed once this is fixed.
warnings.filterwarnings(
    "ignore",
    message="unique with argument",
    category=FutureWarning,
    module="holoviews.core.util",
)


class Hv:
    """Holoviews-based plotting methods.

    Plots based on Holoviews can be created without prior slicing. Instead, a slider is
    created for the directions not shown in the plot. This class should not be accessed
    directly. Use ``field.hv`` to use the different plotting methods.

    Data in the plots is filtered based on ``field.valid``. Only cells where
    ``valid==True`` are visible in the plots.

    Parameters
    ----------
    key_dims : dict[df.plotting.util.hv_key_dim]

        Key dimensions of the plot (kdims and dynamic kdims [for which holoviews will
        create widgets]) in a dictionary. The keys are the names of the dimensions,
        values namedtuples containing the data and unit (can be an empty string) of the
        dimensions.

    callback : callable

        Callback function to provide data. It must accept arbitrary keyword arguments
        and will be called with all dynamic kdims and their current values.

    vdims_guess_callback : callable, optional

       Callback function to provide (guess) vdims for the __call__ method if no vdims
       are passed in. This method is required because the order of key_dims is not
       defined.

    """

    def __init__(self, key_dims, callback, vdim_guess_callback=None):
        # no tests for key_dims and callback as the class is not directly used by users
        if not hv.extension._loaded:
            hv.extension("bokeh", logo=False)
        self.key_dims = key_dims
        self.callback = callback
        self.vdim_guess_callback = vdim_guess_callback

    def __call__(
        self,
        kdims,
        vdims=None,
        roi=None,
        scalar_kw=None,
        vector_kw=None,
    ):
        """Create an optimal plot combining ``hv.scalar`` and ``hv.vector``.

        This is a convenience method for quick plotting. It combines ``hv.scalar`` and
         ``hv.vector``. Depending on the dimensionality of the object, it automatically
         determines the type of plot in the following order:

        1. For scalar objects (no dimension with name ``'vdims'``) only
           ``discretisedfield.plotting.Hv.scalar`` is used. The parameter ``vdims`` is
           ignored.

        2. When ``vdims`` is specified a vector plot (without coloring) is created for
           the "in-plane" part of the vector field (defined via ``vdims``). If the field
           has vector dimensionality larger than two an additional scalar plot is
           created for all remaining vector components (with a drop-down selection).

        3. If ``vdims`` is not specified the method tries to guess the correct ``vdims``
           from the ``kdims`` by matching spatial coordinates and vector components
           based on the order they are defined in. This only works if both have the same
           number of elements, e.g. a 3d vector field in 3d space.

        4. For all other vector fields a scalar plot with a drop-down selection for the
           individual vector components is created.

        Based on the norm of the object (absolute values for scalar fields) automatic
        filtering is applied, i.e. all cells where the norm is zero are excluded from
        the plot. To manually filter out parts of the plot (e.g. areas where the norm of
        the field is zero) an additional ``roi`` can be passed. It can take an
        ``xarray.DataArray`` or a ``discretisedfield.Field`` and hides all points where
        ``roi`` is 0. It relies on ``xarray``s broadcasting and the object passed to
        ``roi`` must only have the same dimensions as the ones specified as ``kdims``.

        All default values of ``hv.scalar`` and ``hv.vector`` can be changed by passing
        dictionaries to ``scalar_kw`` and ``vector_kw``, which are then used in
        subplots.
        To understand the meaning of the keyword arguments which can be passed to this
        method, please refer to ``discretisedfield.plotting.Hv.scalar`` and
        ``discretisedfield.plotting.Hv.vector`` documentation.

        To reduce the number of points in the plot a simple re-sampling is available.
        The parameter ``n`` in ``scalar_kw`` or ``vector_kw`` can be used to specify the
        number of points in different directions. A tuple of length 2 can be used to
        specify the number of points in the two ``kdims``. Note, that the re-sampling
        method is very basic and does not do any sort of interpolation (it just picks
        the nearest point). The extreme points in each direction are always kept.
        Equidistant points are picked in between.

        Parameters
        ----------
        kdims : List[str]

            Names of the two geometrical directions forming the plane to be used for
            plotting the data.

        vdims : List[str], optional

            Names of the components to be used for plotting the arrows. This information
            is used to associate field components and spatial directions. Optionally,
            one of the list elements can be ``None`` if the field has no component in
            that direction.

        roi : xarray.DataArray, discretisedfield.Field, optional

            Filter out certain areas in the plot. Only cells where the roi is non-zero
            are included in the output.

        scalar_kw : dict

            Additional keyword arguments that are passed to
            ``discretisedfield.plotting.Hv.scalar``

        vector_kw : dict

            Additional keyword arguments that are passed to
            ``discretisedfield.plotting.Hv.vector``

        Returns
        -------
        holoviews.DynamicMap

            A ``holoviews.DynamicMap`` that "creates" a combined plot for each slider
            value.

        Examples
        --------
        1. Simple combined scalar and vector plot with ``hv``.

        >>> import discretisedfield as df
        ...
        >>> p1 = (0, 0, 0)
        >>> p2 = (100, 100, 100)
        >>> n = (10, 10, 10)
        >>> mesh = df.Mesh(p1=p1, p2=p2, n=n)
        >>> field = df.Field(mesh, nvdim=1, value=2)
        ...
        >>> field.hv(kdims=['x', 'y'])
        :DynamicMap...

        """
        scalar_kw = {} if scalar_kw is None else scalar_kw.copy()
        vector_kw = {} if vector_kw is None else vector_kw.copy()

        vector_kw.setdefault("use_color", False)

        if "vdims" not in self.key_dims:
            return self.scalar(kdims=kdims, **scalar_kw)

        # try to guess vdims if not passed
        if vdims is None and self.vdim_guess_callback is not None:
            vdims = self.vdim_guess_callback(kdims)

        if vdims:
            scalar_comps = list(set(self.key_dims["vdims"].data) - set(vdims))
            with contextlib.suppress(KeyError):
                vector_kw.pop("vdims")
            vector = self.vector(kdims=kdims, vdims=vdims, **vector_kw)
            if len(scalar_comps) == 0:
                return vector
            else:
                key_dims = copy.deepcopy(self.key_dims)
                if len(scalar_comps) > 1:
                    key_dims["vdims"] = hv_key_dim(scalar_comps, key_dims["vdims"].unit)
                    callback = self.callback
                else:
                    # manually remove component 'vdims' from returned xarray to avoid
                    # a drop-down with one element (the out-of-plane component)
                    def callback(*args, **kwargs):
                        res = self.callback(*args, **kwargs)
                        return res.sel(vdims=scalar_comps[0]).drop_vars(
                            "vdims", errors="ignore"
                        )

                    key_dims.pop("vdims")

                scalar = self.__class__(key_dims, callback).scalar(
                    kdims=kdims, **scalar_kw
                )
                return scalar * vector
        else:
            return self.scalar(kdims=kdims, **scalar_kw)

    def scalar(self, kdims, roi=None, n=None, **kwargs):
        """Create an image plot for scalar data or individual components.

        This method creates a dynamic holoviews plot (``holoviews.DynamicMap``) based on
        ``holoviews.Image`` objects. The plot shows the plane defined with the two
        spatial directions passed to ``kdims``. If a vector field is passed (that means
        the field dimension 'vdims' is greater than 1) an additional ``panel.Select``
        widget for the field components is created automatically. It is not necessary to
        create a cut-plane first.

        To filter out parts of the plot (e.g. areas where the norm of the field is zero)
        an additional ``roi`` can be passed. It can take an ``xarray.DataArray`` or a
        ``discretisedfield.Field`` and hides all points where ``roi`` is 0. It relies on
        ``xarray``s broadcasting and the object passed to ``roi`` must only have the
        same dimensions as the ones specified as ``kdims``. No automatic filtering is
        applied.

        To reduce the number of points in the plot a simple re-sampling is available.
        The parameter ``n`` can be used to specify the number of points in different
        directions. A tuple of length 2 can be used to specify the number of points in
        the two ``kdims``. Note, that the re-sampling method is very basic and does not
        do any sort of interpolation (it just picks the nearest point). The extreme
        points in each direction are always kept. Equidistant points are picked in
        between.

        Additional keyword arguments are directly forwarded to the ``.opts`` method of
        the resulting ``holoviews.Image``. Please refer to the documentation of
        ```holoviews`` (in particular ``holoviews.Image``) for available options and
        additional documentation on how to modify the plot after creation.

        Parameters
        ----------
        kdims : List[str]

            Names of the two geometrical directions forming the plane to be used for
            plotting the data.

        roi : xarray.DataArray, discretisedfield.Field, optional

            Field to filter out certain areas in the plot. Only cells where the
            roi is non-zero are included in the output.

        n : array_like(2), optional

            Re-sampling of the array with the given number of points. If not specified
            no re-sampling is done.

        kwargs

            Additional keyword arguments that are forwarded to ``.opts`` of the
            ``holoviews.Image`` object.

        Returns
        -------
        holoviews.DynamicMap

            A ``holoviews.DynamicMap`` that "creates" a ``holoviews.Image`` for each
            slider value.

        Raises
        ------
        ValueError

            If ``kdims`` does not have length 2 or contains strings that are not part of
            the geometrical directions of the field.

        Examples
        --------
        1. Simple scalar plot with ``hv``.

        >>> import discretisedfield as df
        ...
        >>> p1 = (0, 0, 0)
        >>> p2 = (100, 100, 100)
        >>> n = (10, 10, 10)
        >>> mesh = df.Mesh(p1=p1, p2=p2, n=n)
        >>> field = df.Field(mesh, nvdim=1, value=2)
        ...
        >>> field.hv.scalar(kdims=['x', 'z'])
        :DynamicMap...

        """
        self._check_kdims(kdims)
        kwargs.setdefault("data_aspect", 1)
        kwargs.setdefault("colorbar", True)

        dyn_kdims = [dim for dim in self.key_dims if dim not in kdims]

        roi = self._setup_roi(roi, kdims)
        self._check_n(n)

        def _plot(*values):
            data = self.callback(**dict(zip(dyn_kdims, values)))
            data = self._filter_values(
                data, roi, kdims, dyn_kdims=dict(zip(dyn_kdims, values))
            )
            data = self._resample(data, kdims, n)
            plot = hv.Image(data=data, kdims=kdims).opts(**kwargs)

            for dim in plot.kdims:
                dim.unit = self.key_dims[dim.name].unit

            return plot

        return hv.DynamicMap(_plot, kdims=dyn_kdims).redim.values(
            **{dim: self.key_dims[dim].data for dim in dyn_kdims}
        )

    def vector(
        self,
        kdims,
        vdims=None,
        cdim=None,
        roi=None,
        n=None,
        use_color=True,
        **kwargs,
    ):
        """Create a vector plot.

        This method creates a dynamic holoviews plot (``holoviews.DynamicMap``) based on
        ``holoviews.VectorField`` objects. The plot shows the plane defined with the two
        spatial directions passed to ``kdims``. The length of the arrows corresponds to
        the norm of the in-plane component of the field. It is not necessary to create a
        cut-plane first.

        ``vdims`` co-relates the vector directions with the geometrical direction
        defined with ``kdims``. If not specified, ``kdims`` is used to guess the values.

        For 3d vector fields the color by default encodes the out-of-plane component.
        Other fields cannot be colored automatically. To assign a non-uniform color
        manually use ``cdim``. It either accepts a string to select one of the field
        vector components or a scalar ``discretisedfield.Field`` or
        ``xarray.DataArray``. Coloring can be disabled with ``use_color=False``.

        To filter out parts of the plot (e.g. areas where the norm of the field is zero)
        an additional ``roi`` can be passed. It can take an ``xarray.DataArray`` or a
        ``discretisedfield.Field`` and hides all points where ``roi`` is zero. It relies
        on ``xarray``s broadcasting and the object passed to ``roi`` must only have the
        same dimensions as the ones specified as ``kdims``. No automatic filtering is
        applied.

        To reduce the number of points in the plot a simple re-sampling is available.
        The parameter ``n`` can be used to specify the number of points in different
        directions. A tuple of length 2 can be used to specify the number of points in
        the two ``kdims``. Note, that the re-sampling method is very basic and does not
        do any sort of interpolation (it just picks the nearest point). The extreme
        points in each direction are always kept. Equidistant points are picked in
        between.

        This method is based on ``holoviews.VectorPlot``. Additional keyword arguments
        are directly forwarded to the ``.opts()`` method of the ``holoviews.Image``
        object. Please refer to the documentation of ``holoviews`` (in particular
        ``holoviews.VectorField``) for available options and additional documentation on
        how to modify the plot after creation.

        Parameters
        ----------
        kdims : List[str]

            Names of the two geometrical directions forming the plane to be used for
            plotting the data.

        vdims : List[str], optional

            Names of the components to be used for plotting the arrows. This information
            is used to associate field components and spatial directions. Optionally,
            one of the list elements can be ``None`` if the field has no component in
            that direction. If ``vdims`` is not specified the method tries to guess the
            correct ``vdims`` from the ``kdims`` by matching spatial coordinates and
            vector components based on the order they are defined in. This only works if
            both have the same number of elements, e.g. a 3d vector field in 3d space.

        cdim : str, xarray.DataArray, discretisedfield.Field, optional

            A string can be used to select one of the vector components of the field. To
            color according to different data scalar ``discretisedfield.Field`` or
            ``xarray.DataArray`` can be used to color the arrows. This option has no
            effect when ``use_color=False``. If not passed the out-of-plane component is
            used for 3d vector fields. Otherwise, a warning is show and automatic
            coloring is disabled.

        roi : xarray.DataArray, discretisedfield.Field, optional

            Field to filter out certain areas in the plot. Only cells where the
            roi is non-zero are included in the output.

        n : array_like, optional

            Re-sampling of the array with the given number of points. If not specified
            no re-sampling is done.

        use_color : bool, optional

            If ``True`` the field is colored according to the out-of-plane component. If
            ``False`` all arrows have a uniform color, by default black. To change the
            uniform color pass e.g.``color= 'blue'``. Defaults to ``True``.

        kwargs

            Additional keyword arguments that are forwarded to
            ``holoviews.VectorField.opts()``.

        Returns
        -------
        holoviews.DynamicMap

            A ``holoviews.DynamicMap`` that "creates" a ``holoviews.VectorField`` for
            each slider value.

        Raises
        ------
        ValueError

            If ``kdims`` does not have length 2 or contains strings that are not part of
            the geometrical directions of the field.

            If the object has no dimension ``vdims`` that defines the vector components.

        Examples
        --------
        1. Simple vector plot with ``hv``.

        >>> import discretisedfield as df
        ...
        >>> p1 = (0, 0, 0)
        >>> p2 = (100, 100, 100)
        >>> n = (10, 10, 10)
        >>> mesh = df.Mesh(p1=p1, p2=p2, n=n)
        >>> field = df.Field(mesh, nvdim=3, value=(1, 2, 3))
        ...
        >>> field.hv.vector(kdims=['x', 'y'], vdims=['x', 'y'])
        :DynamicMap...

        """
        self._check_kdims(kdims)
        if "vdims" not in self.key_dims:
            raise ValueError(
                "The vector plot method can only operate on data with a"
                " vector component called 'vdims'."
            )
        if cdim is not None:
            if not isinstance(cdim, str):
                raise TypeError("cdim must be of type str")
            elif cdim not in self.key_dims["vdims"].data:
                raise ValueError(f"The vector dimension {cdim} does not exist.")

        # try to guess vdims if not passed
        if vdims is None and self.vdim_guess_callback is not None:
            vdims = self.vdim_guess_callback(kdims)
        if vdims is None or len(vdims) != 2:
            raise ValueError(f"{vdims=} must contain two elements.")

        arrow_x, arrow_y = vdims
        if arrow_x is None and arrow_y is None:
            raise ValueError(f"At least one element of {vdims=} must be not None.")

        roi = self._setup_roi(roi, kdims)
        self._check_n(n)

        dyn_kdims = [dim for dim in self.key_dims if dim not in kdims + ["vdims"]]

        kwargs.setdefault("data_aspect", 1)

        def _plot(use_color, cdim, *values):
            # use_color and cdim have to be defined in here; otherwise an
            # UnboundLocalError is raised
            # roi, n, kdims, dyn_kdims, arrow_x, arrow_y, and kwargs work fine
            data = self.callback(**dict(zip(dyn_kdims, values)))
            data = self._filter_values(
                data, roi, kdims, dyn_kdims=dict(zip(dyn_kdims, values))
            )
            data = self._resample(data, kdims, n)

            vector_norm = xr.apply_ufunc(
                np.linalg.norm, data, input_core_dims=[["vdims"]], kwargs={"axis": -1}
            )
            vector_vdims = ["angle", "mag"]
            vector_data = {}
            vector_data["mag"] = np.sqrt(
                (data.sel(vdims=arrow_x) ** 2 if arrow_x else 0)
                + (data.sel(vdims=arrow_y) ** 2 if arrow_y else 0)
            )
            vector_data["angle"] = np.arctan2(
                data.sel(vdims=arrow_y) if arrow_y else 0,
                data.sel(vdims=arrow_x) if arrow_x else 0,
                where=np.logical_and(vector_norm != 0, ~np.isnan(vector_norm)).data,
                out=np.full(vector_norm.shape, np.nan),
            )

            if use_color and cdim is None:
                if len(data.vdims) == 3:
                    cdim = (set(data.vdims.to_numpy()) - set(vdims)).pop()
                else:
                    warnings.warn(
                        "Automatic coloring is only supported for 3d"
                        f' vector fields. Ignoring "{use_color=}".',
                        stacklevel=2,
                    )
                    use_color = False

            if use_color:
                vector_vdims.append("color_comp")
                kwargs["color"] = "color_comp"
                vector_data["color_comp"] = data.sel(vdims=cdim).drop_vars(
                    "vdims", errors="ignore"
                )
                kwargs.setdefault("clabel", cdim)
                kwargs.setdefault("colorbar", True)

            plot = hv.VectorField(
                data=xr.Dataset(vector_data),
                kdims=kdims,
                vdims=vector_vdims,
            )
            plot.opts(magnitude="mag", **kwargs)

            for dim in plot.kdims:
                dim.unit = self.key_dims[dim.name].unit

            return plot

        return hv.DynamicMap(
            functools.partial(_plot, use_color, cdim), kdims=dyn_kdims
        ).redim.values(**{dim: self.key_dims[dim].data for dim in dyn_kdims})

    def contour(self, kdims, roi=None, n=None, levels=10, **kwargs):
        """Plot contour lines of scalar fields or vector components.

        This method creates a dynamic holoviews plot (``holoviews.DynamicMap``) based on
        ``holoviews.Contours``. The plot shows the plane defined with the two spatial
        directions passed to ``kdims``. If a vector field is passed (that means the
        field dimension is greater than 1) an additional ``panel.Select`` widget for the
        field components is created automatically. It is not necessary to create a
        cut-plane first.

        To filter out parts of the plot (e.g. areas where the norm of the field is zero)
        an additional ``roi`` can be passed. It can take an ``xarray.DataArray`` or a
        ``discretisedfield.Field`` and hides all points where ``roi`` is 0. It relies on
        ``xarray``s broadcasting and the object passed to ``roi`` must only have the
        same dimensions as the ones specified as ``kdims``. No automatic filtering is
        applied.

        To reduce the number of points in the plot a simple re-sampling is available.
        The parameter ``n`` can be used to specify the number of points in different
        directions. A tuple of length 2 can be used to specify the number of points in
        the two ``kdims``. Note, that the re-sampling method is very basic and does not
        do any sort of interpolation (it just picks the nearest point). The extreme
        points in each direction are always kept. Equidistant points are picked in
        between.

        Additional keyword arguments are directly forwarded to the ``.opts`` method of
         the ``holoviews.DynamicMap``. Please refer to the documentation of
         ``holoviews`` (in particular `holoviews.Contours``) for available options and
         additional documentation on how to modify the plot after creation.

        Parameters
        ----------
        kdims : List[str]

            Names of the two geometrical directions forming the plane to be used for
            plotting the data.

        roi : xarray.DataArray, discretisedfield.Field, optional

            Field to filter out certain areas in the plot. Only cells where the
            roi is non-zero are included in the output.

        n : array_like(2), optional

            Re-sampling of the array with the given number of points. If an array-like
            is passed it must have length 2 and the values are used for the two kdims.
            If not specified no re-sampling is done.

        levels : int, optional

            The number of contour lines, defaults to 10.

        kwargs

            Additional keyword arguments that are forwarded to ``.opts`` of the
            ``holoviews.DynamicMap`` object.

        Returns
        -------
        holoviews.DynamicMap

            A ``holoviews.DynamicMap`` that "creates" a ``holoviews.Contours`` object
            for each slider value.

        Raises
        ------
        ValueError

            If ``kdims`` has not length 2 or contains strings that are not part of the
            geometrical directions of the field.

        Examples
        --------
        1. Simple contour-line plot with ``hv``.

        >>> import discretisedfield as df
        ...
        >>> p1 = (0, 0, 0)
        >>> p2 = (100, 100, 100)
        >>> n = (10, 10, 10)
        >>> mesh = df.Mesh(p1=p1, p2=p2, n=n)
        >>> field = df.Field(mesh, nvdim=1, value=2)
        ...
        >>> field.hv.contour(kdims=['y', 'z'])
        :DynamicMap...

        """
        kwargs.setdefault("data_aspect", 1)
        kwargs.setdefault("colorbar", True)
        return hv.operation.contours(
            self.scalar(kdims, roi, n, colorbar=False), levels=levels
        ).opts(**kwargs)

    def _check_kdims(self, kdims):
        if len(kdims) != 2:
            raise ValueError(f"{kdims=} must have length 2.")
        for dim in kdims:
            if dim not in self.key_dims:
                raise ValueError(
                    f"Unknown dimension {dim=} in kdims; must be in"
                    f" {self.key_dims.keys()}."
                )

    def _setup_roi(self, roi, kdims):
        if roi is None:
            return None
        elif isinstance(roi, df.Field):
            roi = roi.to_xarray()
        elif callable(roi):
            # this has to come after the Field check because Field is callable
            return roi  # no checks can be performed without knowing slider values
        elif not isinstance(roi, xr.DataArray):
            raise TypeError(f"Unsupported type {type(roi)} for 'roi'.")

        if "vdims" in roi.dims:
            raise ValueError("Only scalar roi is supported.")

        for kdim in kdims:
            if kdim not in roi.dims:
                raise KeyError(f"Missing dim {kdim} in the filter.")
            if len(self.key_dims[kdim].data) != len(roi[kdim].data) or not np.allclose(
                self.key_dims[kdim].data, roi[kdim].data
            ):
                raise ValueError(f"Coordinates for dim {kdim} do not match.")

        extra_roi_dims = set(roi.dims) - set(self.key_dims)
        if len(extra_roi_dims) > 0:
            raise ValueError(
                f"Additional dimension(s) {extra_roi_dims} in roi are not supported."
            )

        for kdim in roi.dims:
            if kdim in kdims:
                continue
            if len(self.key_dims[kdim].data) != len(roi[kdim].data) or not np.allclose(
                self.key_dims[kdim].data, roi[kdim].data
            ):
                raise ValueError(f"Coordinates for dim {kdim} do not match.")

        return roi

    @staticmethod
    def _filter_values(values, roi, kdims, dyn_kdims):
        if roi is None:
            return values

        if callable(roi):
            roi_selection = copy.deepcopy(dyn_kdims)
            with contextlib.suppress(KeyError):
                roi_selection.pop("vdims")
            roi = roi(**roi_selection)
            if "vdims" in roi.dims:
                roi = xr.apply_ufunc(
                    np.linalg.norm,
                    roi,
                    input_core_dims=[["vdims"]],
                    kwargs={"axis": -1},
                ).drop_vars("vdims", errors="ignore")
            else:
                roi = np.abs(roi)

        for dyn_kdim, dyn_val in dyn_kdims.items():
            if dyn_kdim in roi.dims:
                # TODO add cell accuracy to method: nearest
                method = {} if isinstance(dyn_val, str) else {"method": "nearest"}
                roi = roi.sel(**{dyn_kdim: dyn_val}, **method).drop_vars(dyn_kdim)
        for dim in roi.dims:
            if dim not in dyn_kdims and len(roi[dim]) == 1:
                roi = roi.squeeze(dim=dim)

        assert len(roi.dims) == 2, (
            f"Additional dimension(s) {set(roi.dims) - set(kdims)} in roi are not"
            " supported."
        )

        return values.where(roi != 0)

    @staticmethod
    def _check_n(n):
        if n is None:
            return
        elif not isinstance(n, (tuple, list, np.ndarray)):
            raise TypeError(
                f"Invalid type {type(n)} for parameter n. Must be array-like."
            )
        elif len(n) != 2:
            raise ValueError(f"{len(n)=} must be 2.")

    @staticmethod
    def _resample(array, kdims, n):
        if n is None:
            return array

        # .item() is required to convert xarray to Python built-in type;
        # without this conversion linspace will fail because it would try to create a
        # a new xarray but no dimensions are provided.
        vals = {
            dim: np.linspace(array[dim].min().item(), array[dim].max().item(), ni)
            for dim, ni in zip(kdims, n)
        }
        resampled = array.sel(**vals, method="nearest")
        resampled = resampled.assign_coords(vals)
        for dim in vals:
            with contextlib.suppress(AttributeError):
                resampled[dim]["units"] = array[dim].units
        return resampled
