import ubermagutil.units as uu

import discretisedfield.plotting.util as plot_util
from discretisedfield.plotting.mpl import Mpl


class MplRegion(Mpl):
    def __init__(self, region):
        if region.ndim != 3:
            raise RuntimeError("Only 3d regions can be plotted.")
        self.region = region

    def __call__(
        self,
        *,
        ax=None,
        figsize=None,
        multiplier=None,
        color=plot_util.cp_hex[0],
        box_aspect="auto",
        filename=None,
        **kwargs,
    ):
        r"""``matplotlib`` plot.

        If ``ax`` is not passed, ``matplotlib.axes.Axes`` object is created
        automatically and the size of a figure can be specified using
        ``figsize``. The colour of lines depicting the region can be specified
        using ``color`` argument, which must be a valid ``matplotlib`` color.
        The plot is saved in PDF-format if ``filename`` is passed.

        It is often the case that the object size is either small (e.g. on a
        nanoscale) or very large (e.g. in units of kilometers). Accordingly,
        ``multiplier`` can be passed as :math:`10^{n}`, where :math:`n` is a
        multiple of 3 (..., -6, -3, 0, 3, 6,...). According to that value, the
        axes will be scaled and appropriate units shown. For instance, if
        ``multiplier=1e-9`` is passed, all axes will be divided by
        :math:`1\,\text{nm}` and :math:`\text{nm}` units will be used as
        axis labels. If ``multiplier`` is not passed, the best one is
        calculated internally.

        This method is based on ``matplotlib.pyplot.plot``, so any keyword
        arguments accepted by it can be passed (for instance, ``linewidth``,
        ``linestyle``, etc.).

        Parameters
        ----------
        ax : matplotlib.axes.Axes, optional

            Axes to which the plot is added. Defaults to ``None`` - axes are
            created internally.

        figsize : (2,) tuple, optional

            The size of a created figure if ``ax`` is not passed. Defaults to
            ``None``.

        color : int, str, tuple, optional

            A valid ``matplotlib`` color for lines depicting the region.
            Defaults to the default color palette.

        multiplier : numbers.Real, optional

            Axes multiplier. Defaults to ``None``.

        box_aspect : str, array_like (3), optional

            Set the aspect-ratio of the plot. If set to `'auto'` the aspect
            ratio is determined from the edge lengths of the region. To set
            different aspect ratios a tuple can be passed. Defaults to
            ``'auto'``.

        filename : str, optional

            If filename is passed, the plot is saved. Defaults to ``None``.

        Examples
        --------
        1. Visualising the region using ``matplotlib``.

        >>> import discretisedfield as df
        ...
        >>> p1 = (-50e-9, -50e-9, 0)
        >>> p2 = (50e-9, 50e-9, 10e-9)
        >>> region = df.Region(p1=p1, p2=p2)
        >>> region.mpl()

        """
        if self.region.ndim != 3:
            raise ValueError("Only 3-dimensional regions can be plotted.")
        ax = self._setup_axes(ax, figsize, projection="3d")

        multiplier = self._setup_multiplier(multiplier)

        kwargs.setdefault("color", color)

        rescaled_region = self.region.scale(1 / multiplier, reference_point=(0, 0, 0))

        if box_aspect == "auto":
            ax.set_box_aspect(rescaled_region.edges)
        elif box_aspect is not None:
            ax.set_box_aspect(box_aspect)

        plot_util.plot_box(
            ax=ax, pmin=rescaled_region.pmin, pmax=rescaled_region.pmax, **kwargs
        )

        self._axis_labels(ax, multiplier)

        # Overwrite default plotting parameters.
        ax.set_facecolor("#ffffff")  # white face color
        ax.tick_params(axis="both", which="major", pad=0)  # no pad for ticks

        self._savefig(filename)

    def _setup_multiplier(self, multiplier):
        return self.region.multiplier if multiplier is None else multiplier

    def _axis_labels(self, ax, multiplier):
        unit_x = rf"({uu.rsi_prefixes[multiplier]}{self.region.units[0]})"
        unit_y = rf"({uu.rsi_prefixes[multiplier]}{self.region.units[1]})"
        unit_z = rf"({uu.rsi_prefixes[multiplier]}{self.region.units[2]})"
        ax.set(xlabel=f"x {unit_x}", ylabel=f"y {unit_y}", zlabel=f"z {unit_z}")
