"""Matplotlib-based plotting."""

import abc

import matplotlib.pyplot as plt
import mpl_toolkits.axes_grid1.inset_locator
import numpy as np

import discretisedfield.plotting.util as plot_util


class Mpl(metaclass=abc.ABCMeta):
    """Matplotlib-based plotting methods."""

    @abc.abstractmethod
    def __call__(self, *args, **kwargs):
        pass  # pragma: no cover

    def _setup_axes(self, ax, figsize, **kwargs):
        if ax is None:
            fig = plt.figure(figsize=figsize)
            ax = fig.add_subplot(111, **kwargs)

        return ax

    @abc.abstractmethod
    def _setup_multiplier(self, multiplier):
        pass  # pragma: no cover

    @abc.abstractmethod
    def _axis_labels(self, ax, multiplier):
        pass  # pragma: no cover

    def _savefig(self, filename):
        if filename is not None:
            plt.savefig(filename, bbox_inches="tight", pad_inches=0.02)


def add_colorwheel(ax, width=1, height=1, loc="lower right", **kwargs):
    """Colorwheel for hsv plots.

    Creates colorwheel on new inset axis. See
    ``mpl_toolkits.axes_grid1.inset_locator.inset_axes`` for the meaning of the
    arguments and other possible keyword arguments.

    Example
    -------
    .. plot::
        :context: close-figs

        1. Adding a colorwheel to an empty axis
        >>> import discretisedfield.plotting as dfp
        >>> import matplotlib.pyplot as plt
        ...
        >>> fig, ax = plt.subplots()  # doctest: +SKIP
        >>> ins_ax = dfp.add_colorwheel(ax)  # doctest: +SKIP

    """
    n = 200
    x = np.linspace(-1, 1, n)
    y = np.linspace(-1, 1, n)
    X, Y = np.meshgrid(x, y)

    theta = np.arctan2(Y, X) + np.pi
    r = np.sqrt(X**2 + Y**2)

    rgb = plot_util.hls2rgb(hue=theta, lightness=r, lightness_clim=[0, 1 / np.sqrt(2)])

    theta = theta.reshape((n, n, 1))

    rgba = np.zeros((n, n, 4))
    for i, xi in enumerate(x):
        for j, yi in enumerate(y):
            if xi**2 + yi**2 <= 1:
                rgba[i, j, :3] = rgb[i, j, :]
                rgba[i, j, 3] = 1

    ax_ins = mpl_toolkits.axes_grid1.inset_locator.inset_axes(
        ax, width=width, height=height, loc=loc, **kwargs
    )
    ax_ins.imshow(rgba[:, ::-1, :])
    ax_ins.axis("off")
    return ax_ins
