import copy

import pyvista as pv
import ubermagutil.units as uu

import discretisedfield.plotting.util as plot_util


class PyVistaRegion:
    def __init__(self, region):
        if region.ndim != 3:
            raise RuntimeError("Only 3d regions can be plotted.")
        self.region = copy.deepcopy(region)

    def __call__(
        self,
        *,
        plotter=None,
        color=plot_util.cp_hex[0],
        multiplier=None,
        filename=None,
        **kwargs,
    ):
        """Generates a ``pyvista`` plot of a 3-dimensional region.

        This method utilises ``pyvista`` to visualise the region.

        If a ``plotter`` is not supplied, it initialises and uses its
        own ``pyvista.Plotter``.

        Additional keyword arguments are forwarded to the ``pyvista.add_mesh``
        method to allow further customisation.

        Parameters
        ----------
        plotter : pyvista.Plotter, optional

            Plotter to which the plotter is added. Defaults to ``None``
            - plot is created internally.

        color : tuple, optional

            Colour of the region in hexadecimal. Defaults to the default color palette.

        multiplier : numbers.Real, optional

            A scaling factor applied to the region dimensions. This can be useful for
            adjusting the region size for visualisation purposes. If ``None``, no
            scaling is applied. For more details, see ``discretisedfield.Region.mpl``.

        filename : str, optional

            The path or filename where the plot will be saved. If specified, the plot is
            saved to this file. The file format is inferred from the extension, which
            must be one of: 'png', 'jpeg', 'jpg', 'bmp', 'tif', 'tiff', 'svg', 'eps',
            'ps', 'pdf', or 'txt'. If `None`, the plot is not saved to a file.

        **kwargs

            Arbitrary keyword arguments that are passed directly to the
            `pyvista.add_mesh` method for additional customisation of the plot.

        Raises
        ------
        RuntimeError
            If the region is not 3-dimensional.

        Examples
        --------
        1. Visualising a region using ``pyvista``.

        >>> import discretisedfield as df
        ...
        >>> p1 = (0, 0, 0)
        >>> p2 = (100, 100, 100)
        >>> region = df.Region(p1=p1, p2=p2)
        ...
        >>> region.pyvista() # doctest: +SKIP

        """
        if self.region.ndim != 3:
            raise RuntimeError("Only 3-dimensional regions can be plotted.")

        plot = pv.Plotter() if plotter is None else plotter

        multiplier = self._setup_multiplier(multiplier)

        rescaled_region = self.region.scale(1 / multiplier, reference_point=(0, 0, 0))

        bounds = tuple(
            val
            for pair in zip(rescaled_region.pmin, rescaled_region.pmax)
            for val in pair
        )

        # Create a box (cube) mesh using pyvista
        box = pv.Box(bounds)

        # Add the box to the plotter
        plot.add_mesh(box, color=color, **kwargs)
        # plot.show_bounds(axes_ranges=bounds)
        label = self._axis_labels(multiplier)
        plot.show_grid(xtitle=label[0], ytitle=label[1], ztitle=label[2])

        if plotter is None:
            plot.show()

        if filename is not None:
            plot_util._pyvista_save_to_file(filename, plot)

    def _setup_multiplier(self, multiplier):
        return self.region.multiplier if multiplier is None else multiplier

    def _axis_labels(self, multiplier):
        return [
            rf"{dim} ({uu.rsi_prefixes[multiplier]}{unit})"
            for dim, unit in zip(self.region.dims, self.region.units)
        ]
