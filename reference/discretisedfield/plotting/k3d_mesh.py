import k3d
import numpy as np
import ubermagutil.units as uu

import discretisedfield.plotting.util as plot_util


class K3dMesh:
    def __init__(self, mesh):
        if mesh.region.ndim != 3:
            raise RuntimeError("Only 3d meshes can be plotted.")
        self.mesh = mesh

    def __call__(
        self, *, plot=None, color=plot_util.cp_int[:2], multiplier=None, **kwargs
    ):
        """``k3d`` plot.

        If ``plot`` is not passed, ``k3d.Plot`` object is created
        automatically. The color of the region and the discretisation cell can
        be specified using ``color`` length-2 tuple, where the first element is
        the colour of the region and the second element is the colour of the
        discretisation cell.

        It is often the case that the object size is either small (e.g. on a
        nanoscale) or very large (e.g. in units of kilometers). Accordingly,
        ``multiplier`` can be passed as :math:`10^{n}`, where :math:`n` is a
        multiple of 3 (..., -6, -3, 0, 3, 6,...). According to that value, the
        axes will be scaled and appropriate units shown. For instance, if
        ``multiplier=1e-9`` is passed, all axes will be divided by
        :math:`1\\,\\text{nm}` and :math:`\\text{nm}` units will be used as
        axis labels. If ``multiplier`` is not passed, the best one is
        calculated internally.

        This method is based on ``k3d.voxels``, so any keyword arguments
        accepted by it can be passed (e.g. ``wireframe``).

        Parameters
        ----------
        plot : k3d.Plot, optional

            Plot to which the plot is added. Defaults to ``None`` - plot is
            created internally.

        color : (2,) array_like

            Colour of the region and the discretisation cell. Defaults to the
            default color palette.

        multiplier : numbers.Real, optional

            Axes multiplier. Defaults to ``None``.

        Examples
        --------
        1. Visualising the mesh using ``k3d``.

        >>> import discretisedfield as df
        >>> p1 = (0, 0, 0)
        >>> p2 = (100, 100, 100)
        >>> n = (10, 10, 10)
        >>> mesh = df.Mesh(p1=p1, p2=p2, n=n)
        ...
        >>> mesh.k3d()
        Plot(...)

        """
        if self.mesh.region.ndim != 3:
            raise ValueError(
                "Only meshes with 3 spatial dimensions can be plotted not"
                f" {self.data.mesh.region.ndim=}."
            )

        if plot is None:
            plot = k3d.plot()
            plot.display()

        if multiplier is None:
            multiplier = uu.si_max_multiplier(self.mesh.region.edges)

        plot_array = np.ones(tuple(reversed(self.mesh.n))).astype(np.uint8)
        plot_array[0, 0, -1] = 2  # mark the discretisation cell

        bounds = [
            i
            for sublist in zip(
                np.divide(self.mesh.region.pmin, multiplier),
                np.divide(self.mesh.region.pmax, multiplier),
            )
            for i in sublist
        ]

        plot += k3d.voxels(
            plot_array, color_map=color, bounds=bounds, outlines=False, **kwargs
        )

        plot.axes = [
            rf"{dim}\,(\text{{{uu.rsi_prefixes[multiplier]}{unit}}})"
            for dim, unit in zip(self.mesh.region.dims, self.mesh.region.units)
        ]

    def subregions(
        self, *, plot=None, color=plot_util.cp_int, multiplier=None, **kwargs
    ):
        """``k3d`` subregions plot.

        If ``plot`` is not passed, ``k3d.Plot`` object is created
        automatically. The color of the subregions can be specified using
        ``color``.

        It is often the case that the object size is either small (e.g. on a
        nanoscale) or very large (e.g. in units of kilometers). Accordingly,
        ``multiplier`` can be passed as :math:`10^{n}`, where :math:`n` is a
        multiple of 3 (..., -6, -3, 0, 3, 6,...). According to that value, the
        axes will be scaled and appropriate units shown. For instance, if
        ``multiplier=1e-9`` is passed, all axes will be divided by
        :math:`1\\,\\text{nm}` and :math:`\\text{nm}` units will be used as
        axis labels. If ``multiplier`` is not passed, the best one is
        calculated internally.

        This method is based on ``k3d.voxels``, so any keyword arguments
        accepted by it can be passed (e.g. ``wireframe``).

        Parameters
        ----------
        plot : k3d.Plot, optional

            Plot to which the plot is added. Defaults to ``None`` - plot is
            created internally.

        color : array_like

            Colour of the subregions. Defaults to the default color palette.

        multiplier : numbers.Real, optional

            Axes multiplier. Defaults to ``None``.

        Examples
        --------
        1. Visualising subregions using ``k3d``.

        >>> import discretisedfield as df
        >>> p1 = (0, 0, 0)
        >>> p2 = (100, 100, 100)
        >>> n = (10, 10, 10)
        >>> subregions = {'r1': df.Region(p1=(0, 0, 0), p2=(50, 100, 100)),
        ...               'r2': df.Region(p1=(50, 0, 0), p2=(100, 100, 100))}
        >>> mesh = df.Mesh(p1=p1, p2=p2, n=n, subregions=subregions)
        ...
        >>> mesh.k3d.subregions()
        Plot(...)

        """
        if self.mesh.region.ndim != 3:
            raise ValueError(
                "Only meshes with 3 spatial dimensions can be plotted not"
                f" {self.data.mesh.region.ndim=}."
            )

        if plot is None:
            plot = k3d.plot()
            plot.display()

        if multiplier is None:
            multiplier = uu.si_max_multiplier(self.mesh.region.edges)

        plot_array = np.zeros(self.mesh.n)
        for index in self.mesh.indices:
            # colour all voxels in the same subregion with the same colour
            # to make it easier to identify subregions
            for i, subregion in enumerate(self.mesh.subregions.values()):
                if self.mesh.index2point(index) in subregion:
                    # +1 to avoid 0 value - invisible voxel
                    plot_array[index] = (i % len(color)) + 1
                    break
        # swap axes for k3d.voxels and astypr to avoid k3d warning
        plot_array = np.swapaxes(plot_array, 0, 2).astype(np.uint8)

        bounds = [
            i
            for sublist in zip(
                np.divide(self.mesh.region.pmin, multiplier),
                np.divide(self.mesh.region.pmax, multiplier),
            )
            for i in sublist
        ]

        plot += k3d.voxels(
            plot_array, color_map=color, bounds=bounds, outlines=False, **kwargs
        )

        plot.axes = [
            rf"{dim}\,(\text{{{uu.rsi_prefixes[multiplier]}{unit}}})"
            for dim, unit in zip(self.mesh.region.dims, self.mesh.region.units)
        ]
