import collections
import colorsys

import numpy as np
import pyvista as pv

# Color pallete as hex and int.
cp_hex = [
    "#4c72b0",
    "#dd8452",
    "#55a868",
    "#c44e52",
    "#8172b3",
    "#937860",
    "#da8bc3",
    "#8c8c8c",
    "#ccb974",
    "#64b5cd",
]
cp_int = [int(color[1:], 16) for color in cp_hex]
hv_key_dim = collections.namedtuple("hv_key_dim", ["data", "unit"])


def plot_line(ax, p1, p2, *args, **kwargs):
    ax.plot(*zip(p1, p2), *args, **kwargs)


def plot_box(ax, pmin, pmax, *args, **kwargs):
    x1, y1, z1 = pmin
    x2, y2, z2 = pmax

    plot_line(ax, (x1, y1, z1), (x2, y1, z1), *args, **kwargs)
    plot_line(ax, (x1, y2, z1), (x2, y2, z1), *args, **kwargs)
    plot_line(ax, (x1, y1, z2), (x2, y1, z2), *args, **kwargs)
    plot_line(ax, (x1, y2, z2), (x2, y2, z2), *args, **kwargs)

    plot_line(ax, (x1, y1, z1), (x1, y2, z1), *args, **kwargs)
    plot_line(ax, (x2, y1, z1), (x2, y2, z1), *args, **kwargs)
    plot_line(ax, (x1, y1, z2), (x1, y2, z2), *args, **kwargs)
    plot_line(ax, (x2, y1, z2), (x2, y2, z2), *args, **kwargs)

    plot_line(ax, (x1, y1, z1), (x1, y1, z2), *args, **kwargs)
    plot_line(ax, (x2, y1, z1), (x2, y1, z2), *args, **kwargs)
    plot_line(ax, (x1, y2, z1), (x1, y2, z2), *args, **kwargs)
    plot_line(ax, (x2, y2, z1), (x2, y2, z2), *args, **kwargs)


def inplane_angle(field, x, y):
    """Compute the angle to the x axis of the in-plane part of the vector field.

    The in-plane part is defined with two vdims x and y.
    """
    if field.nvdim == 1:
        raise ValueError("This method can only be used for vector fields.")
    if x is None and y is None:
        raise ValueError("At least one of x and y most not be None.")
    if x is not None and x not in field.vdims:
        raise ValueError(f"{x} component is not part of {field.vdims=}")
    if y is not None and y not in field.vdims:
        raise ValueError(f"{y} component is not part of {field.vdims=}")

    # TODO should we restrict the calculation to field.valid?
    angle_array = np.arctan2(
        getattr(field, y).array if x is not None else 0,
        getattr(field, x).array if y is not None else 0,
    )
    angle_array[angle_array < 0] += 2 * np.pi
    return field.__class__(
        field.mesh, nvdim=1, value=angle_array, unit="rad", valid=field.valid
    )


def normalise_to_range(values, to_range, from_range=None, int_round=True):
    """Normalise values.

    If from_range is not specified, min and max of values are mapped to min and max of
    to_range otherwise min and max of from_range are mapped to min and max of to_range.

    """
    values = np.asarray(values)

    values -= from_range[0] if from_range else values.min()  # min value is 0
    # For uniform fields, avoid division by zero.
    if from_range or values.max() != 0:
        values /= (
            (from_range[1] - from_range[0]) if from_range else values.max()
        )  # all values in (0, 1)
    values *= to_range[1] - to_range[0]  # all values in (0, r[1]-r[0])
    values += to_range[0]  # all values is range (r[0], r[1])
    if int_round:
        values = values.round()
        values = values.astype(int)

    return values


def hls2rgb(hue, lightness=None, saturation=None, lightness_clim=None):
    """Convert hsl to rgb."""
    hue = normalise_to_range(hue, (0, 1), (0, 2 * np.pi), int_round=False)
    if lightness is not None:
        if lightness_clim is None:
            lightness_clim = (0, 1)
        lightness = normalise_to_range(lightness, lightness_clim, int_round=False)
    else:
        lightness = np.ones_like(hue)
    if saturation is not None:
        saturation = normalise_to_range(saturation, (0, 1), int_round=False)
    else:
        saturation = np.ones_like(hue)

    rgb = np.apply_along_axis(
        lambda x: colorsys.hls_to_rgb(*x), -1, np.dstack((hue, lightness, saturation))
    )

    return rgb.squeeze()


def arrow():
    return pv.Arrow(
        tip_radius=0.18,
        tip_length=0.4,
        tip_resolution=10,
        shaft_resolution=10,
        shaft_radius=0.05,
        start=(-0.5, 0, 0),
    )


def cone():
    return pv.Cone(
        center=(-0.5, 0, 0),
    )


def _pyvista_save_to_file(filename, plotter):
    extension = filename.split(".")[-1] if "." in filename else None
    screenshot = ["png", "jpeg", "jpg", "bmp", "tif", "tiff"]
    graphic = ["svg", "eps", "ps", "pdf", "tex"]
    if extension in screenshot:
        plotter.screenshot(filename=filename)
    elif extension in graphic:
        plotter.save_graphic(filename=filename)
    else:
        raise ValueError(
            f"{extension} extension is not supported. The supported formats are"
            f" {', '.join(screenshot+graphic)}."
        )
