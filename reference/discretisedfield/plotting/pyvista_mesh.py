import copy

import pyvista as pv
import ubermagutil.units as uu

import discretisedfield.plotting.util as plot_util


class PyVistaMesh:
    def __init__(self, mesh):
        if mesh.region.ndim != 3:
            raise RuntimeError(
                "Only meshes with 3 spatial dimensions can be plotted not"
                f" {mesh.region.ndim=}."
            )
        self.mesh = copy.deepcopy(mesh)

    def __call__(
        self,
        *,
        plotter=None,
        color=plot_util.cp_hex,
        cell=True,
        cell_color="black",
        cell_kwargs=None,
        multiplier=None,
        wireframe=True,
        filename=None,
        **kwargs,
    ):
        """Generates a ``pyvista`` plot of a mesh.

        This method generates a ``pyvista`` plot of a given mesh by plotting
        the overall region, each subregion of the mesh, and a cell.
        Each subregion can be coloured distinctly, while the discretisation
        cell is always coloured black.

        Keyword arguments are passed onto ``pyvista.add_mesh`` when
        plotting each subregion.

        Parameters
        ----------
        plotter : pyvista.Plotter, optional

            Plotter to which the plotter is added. Defaults to ``None``
            - plot is created internally.

        color : array_like, optional

            Colour of the subregions. Defaults to the default color palette.

        cell_color : str, optional

            Colour of the discretisation cell.

        cell_kwargs : dict, optional

            Arbitrary keyword arguments passed to `pyvista.add_mesh` when plotting the
            discretisation cell, allowing for additional customisation of the plot.

        wireframe : bool, optional

            Show a wireframe to outline the cells. Defaults to ``True``.

        multiplier : numbers.Real, optional

            A scaling factor applied to the region dimensions. This can be useful for
            adjusting the region size for visualisation purposes. If ``None``, no
            scaling is applied. For more details, see ``discretisedfield.Region.mpl``.

        filename : str, optional

            The path or filename where the plot will be saved. If specified, the plot is
            saved to this file. The file format is inferred from the extension, which
            must be one of: 'png', 'jpeg', 'jpg', 'bmp', 'tif', 'tiff', 'svg', 'eps',
            'ps', 'pdf', or 'txt'. If `None`, the plot is not saved to a file.

        **kwargs

            Arbitrary keyword arguments passed to `pyvista.add_mesh`, allowing for
            additional customisation of the plot.

        Raises
        ------
        ValueError

            If the mesh associated does not have three spatial dimensions.

        Examples
        --------
        1. Visualising a mesh using ``pyvista``.

        >>> import discretisedfield as df
        ...
        >>> p1 = (0, 0, 0)
        >>> p2 = (100, 100, 100)
        >>> n = (10, 10, 10)
        >>> subregions = {
        ...     "r1": df.Region(p1=(0, 0, 0), p2=(100, 10, 10)),
        ...     "r2": df.Region(p1=(0, 10, 0), p2=(100, 20, 10)),
        ... }
        >>> mesh = df.Mesh(p1=p1, p2=p2, n=n, subregions=subregions)
        ...
        >>> mesh.pyvista() # doctest: +SKIP

        .. seealso::

            :py:func:`~discretisedfield.plotting.pyvista.region`

        """

        if cell_kwargs is None:
            cell_kwargs = {}

        plot = pv.Plotter() if plotter is None else plotter

        multiplier = self._setup_multiplier(multiplier)

        rescaled_mesh = self.mesh.scale(1 / multiplier, reference_point=(0, 0, 0))

        for i, (key, subregion) in enumerate(rescaled_mesh.subregions.items()):
            subregion.pyvista(plotter=plot, color=color[i], label=key, **kwargs)

        grid = pv.RectilinearGrid(*rescaled_mesh.vertices)
        plot.disable_hidden_line_removal()

        if cell:
            # Add single cell
            bounds = tuple(
                val
                for pair in zip(
                    rescaled_mesh.region.pmin,
                    rescaled_mesh.region.pmin + rescaled_mesh.cell,
                )
                for val in pair
            )
            box = pv.Box(bounds)
            plot.add_mesh(box, color=cell_color, label="cell", **cell_kwargs)

        label = self._axis_labels(multiplier)
        # Bounds only needed due to axis bug
        bounds = tuple(
            val
            for pair in zip(rescaled_mesh.region.pmin, rescaled_mesh.region.pmax)
            for val in pair
        )
        box = pv.Box(bounds)
        plot.add_mesh(box, opacity=0.0)
        plot.show_grid(xtitle=label[0], ytitle=label[1], ztitle=label[2])

        if wireframe:
            plot.add_mesh(grid, style="wireframe", show_edges=True)
        else:
            edges = box.extract_all_edges()
            plot.add_mesh(edges, color="black")

        plot.add_legend(bcolor=None)

        if plotter is None:
            plot.show()

        if filename is not None:
            plot_util._pyvista_save_to_file(filename, plot)

    def _setup_multiplier(self, multiplier):
        return self.mesh.region.multiplier if multiplier is None else multiplier

    def _axis_labels(self, multiplier):
        return [
            rf"{dim} ({uu.rsi_prefixes[multiplier]}{unit})"
            for dim, unit in zip(self.mesh.region.dims, self.mesh.region.units)
        ]
