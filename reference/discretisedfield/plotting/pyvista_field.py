import copy

import numpy as np
import pyvista as pv
import ubermagutil.units as uu

import discretisedfield.plotting.util as plot_util


class PyVistaField:
    def __init__(self, field):
        if field.mesh.region.ndim != 3:
            raise RuntimeError("Only 3d meshes can be plotted.")

        self.field = field.__class__(
            copy.deepcopy(field.mesh),
            nvdim=field.nvdim,
            value=field.array,
            vdims=field.vdims,
            valid=field.valid,
            vdim_mapping=field.vdim_mapping,
        )

    def vector(
        self,
        plotter=None,
        multiplier=None,
        scalars=None,
        vector=None,
        scale=None,
        color_field=None,
        filename=None,
        glyph_kwargs=None,
        **kwargs,
    ):
        """``pyvista`` vector plot.

        This function visualises a vector field where each vector is represented by a
        glyph, by default an arrow, which points in the direction of the vector and
        has a magnitude proportional to the vector's magnitude. Users can specify
        various parameters to customise the plot, including the plotter, scalar values
        for colour mapping, and a file to save the plot.

        Keyword arguments are passed onto ``pyvista.add_mesh``.

        Parameters
        ----------
        plotter : pyvista.Plotter, optional

            Plotter to which the plotter is added. Defaults to ``None``
            - plot is created internally.

        multiplier : numbers.Real, optional

            A scaling factor applied to the region dimensions. This can be useful for
            adjusting the region size for visualisation purposes. If ``None``, no
            scaling is applied. For more details, see ``discretisedfield.Region.mpl``.

        scalars : str, optional

            The name of the field's vector dimension used to determine the colours of
            the glyphs. By default, the last vector dimension of the field is used.

        vector : pyvista.core.pointset.PointSet, optional

            A ``pyvista`` geometric object used as the glyph that represents the vectors
            in the field. The default is set by ``plot_util.arrow()``, which provides
            a simple arrow shape.

        scale : float, optional

            This value scales the vector glyph prior to plotting. The scale defaults
            to the minimum edge length of a cell divided by the maximum norm of the
            field.

        color_field : discretisedfield.field, optional

            A scalar field used for colouring. Defaults to ``None``
            and the colouring is based on ``scalars``. If provided,
            ``scalars`` are ignored.

        filename : str, optional

            The path or filename where the plot will be saved. If specified, the plot is
            saved to this file. The file format is inferred from the extension, which
            must be one of: 'png', 'jpeg', 'jpg', 'bmp', 'tif', 'tiff', 'svg', 'eps',
            'ps', 'pdf', or 'txt'. If `None`, the plot is not saved to a file.

        glyph_kwargs : dict, optional

            Keyword arguments for the `pyvista.glyph` function that generates the
            glyphs from the vector field data.

        **kwargs

            Arbitrary keyword arguments that are passed to `pyvista.add_mesh`,
            allowing for additional customisation.

        Raises
        ------
        RuntimeError

            If the vector field does not have three dimensions.

        Examples
        --------
        1. Visualising the vector field using ``pyvista``.

        >>> import discretisedfield as df
        ...
        >>> p1 = (0, 0, 0)
        >>> p2 = (100, 100, 100)
        >>> n = (10, 10, 10)
        >>> mesh = df.Mesh(p1=p1, p2=p2, n=n)
        >>> field = df.Field(mesh, nvdim=3, value=(0, 0, 1))
        ...
        >>> field.pyvista.vector() # doctest: +SKIP

        .. seealso::

            :py:func:`~discretisedfield.plotting.pyvista.scalar`
            :py:func:`~discretisedfield.plotting.pyvista.contour`
            :py:func:`~discretisedfield.plotting.pyvista.valid`

        """
        if self.field.nvdim != 3:
            raise RuntimeError(
                "Only meshes with 3 vector dimensions can be plotted not"
                f" {self.field.nvdim=}."
            )

        if glyph_kwargs is None:
            glyph_kwargs = {}

        if vector is None:
            vector = plot_util.arrow()

        if color_field is not None:
            if color_field.nvdim != 1:
                raise ValueError(f"Cannot use {color_field.nvdim=}.")
            if not self.field.mesh.allclose(color_field.mesh):
                raise ValueError("The color_field has to be defined on the same mesh.")

        plot = pv.Plotter() if plotter is None else plotter

        if scalars is None:
            scalars = self.field.vdims[-1]

        multiplier = self._setup_multiplier(multiplier)

        self.field.mesh.scale(1 / multiplier, reference_point=(0, 0, 0), inplace=True)

        field_pv = pv.wrap(self.field.to_vtk())
        if color_field is not None:
            field_pv["color_field"] = pv.wrap(color_field.to_vtk())["field"]
            scalars = "color_field"
        field_pv = field_pv.extract_cells(field_pv["valid"].astype(bool))

        if scale is None:
            scale = np.min(self.field.mesh.cell) / np.max(self.field.norm.array)

        scaled_vector = vector.scale(scale, inplace=False)

        plot.add_mesh(
            field_pv.glyph(
                orient="field", scale="norm", geom=scaled_vector, **glyph_kwargs
            ),
            scalars=scalars,
            **kwargs,
        )

        self._add_empty_region(plot, multiplier, self.field.mesh.region)

        if plotter is None:
            plot.show()

        if filename is not None:
            plot_util._pyvista_save_to_file(filename, plot)

    def scalar(
        self, plotter=None, multiplier=None, scalars=None, filename=None, **kwargs
    ):
        """``pyvista`` scalar plot.

        This function visualises a scalar field using slices of the mesh which can be
        interactively manipulated. Users can specify various parameters to customise
        the plot, including the plotter, scalar values for colour
        mapping, and a file to save the plot.

        Parameters
        ----------
        plotter : pyvista.Plotter, optional

            Plotter to which the plotter is added. Defaults to ``None``
            - plot is created internally.

        multiplier : numbers.Real, optional

            A scaling factor applied to the region dimensions. This can be useful for
            adjusting the region size for visualisation purposes. If ``None``, no
            scaling is applied. For more details, see ``discretisedfield.Region.mpl``.

        scalars : str, optional

            ``vdims`` on which to colour the cells. Defaults to the last ``vdims``.

        filename : str, optional

            The path or filename where the plot will be saved. If specified, the plot is
            saved to this file. The file format is inferred from the extension, which
            must be one of: 'png', 'jpeg', 'jpg', 'bmp', 'tif', 'tiff', 'svg', 'eps',
            'ps', 'pdf', or 'txt'. If `None`, the plot is not saved to a file.

        **kwargs
            Arbitrary keyword arguments passed to `pyvista.add_mesh_slice` for
            additional customisation of the plot.

        Examples
        --------
        1. Visualising a scalar field using ``pyvista``.

        >>> import discretisedfield as df
        ...
        >>> p1 = (0, 0, 0)
        >>> p2 = (100, 100, 100)
        >>> n = (10, 10, 10)
        >>> mesh = df.Mesh(p1=p1, p2=p2, n=n)
        >>> field = df.Field(mesh, nvdim=1, value=1)
        ...
        >>> field.pyvista.scalar() # doctest: +SKIP

        .. seealso::

            :py:func:`~discretisedfield.plotting.pyvista.scalar`
            :py:func:`~discretisedfield.plotting.pyvista.vector`
            :py:func:`~discretisedfield.plotting.pyvista.contour`
            :py:func:`~discretisedfield.plotting.pyvista.valid`
            :py:func:`~discretisedfield.plotting.pyvista.volume`

        """
        plot = pv.Plotter() if plotter is None else plotter

        if scalars is None and self.field.nvdim > 1:
            scalars = self.field.vdims[-1]

        multiplier = self._setup_multiplier(multiplier)

        self.field.mesh.scale(1 / multiplier, reference_point=(0, 0, 0), inplace=True)

        field_pv = pv.wrap(self.field.to_vtk())
        field_pv = field_pv.extract_cells(field_pv["valid"].astype(bool))

        plot.add_mesh_slice(
            field_pv,
            scalars=scalars,
            **kwargs,
        )

        self._add_empty_region(plot, multiplier, self.field.mesh.region)

        if plotter is None:
            plot.show()

        if filename is not None:
            plot_util._pyvista_save_to_file(filename, plot)

    def volume(
        self, plotter=None, multiplier=None, scalars=None, filename=None, **kwargs
    ):
        """``pyvista`` volume plot.

        This method visualises the scalar field within a three-dimensional region
        by rendering a volume. The density and color within the volume
        represent the scalar value at each point.

        Parameters
        ----------
        plotter : pyvista.Plotter, optional

            Plotter to which the plotter is added. Defaults to ``None``
            - plot is created internally.

        multiplier : numbers.Real, optional

            A scaling factor applied to the region dimensions. This can be useful for
            adjusting the region size for visualisation purposes. If ``None``, no
            scaling is applied. For more details, see ``discretisedfield.Region.mpl``.

        scalars : str, optional

            The name of the field's vector dimension used to determine the colours of
            the glyphs. By default, the last vector dimension of the field is used.

        filename : str, optional

            The path or filename where the plot will be saved. If specified, the plot is
            saved to this file. The file format is inferred from the extension, which
            must be one of: 'png', 'jpeg', 'jpg', 'bmp', 'tif', 'tiff', 'svg', 'eps',
            'ps', 'pdf', or 'txt'. If `None`, the plot is not saved to a file.

        **kwargs

            Arbitrary keyword arguments passed directly to `pyvista.add_volume` for
            additional customisation.

        Examples
        --------
        1. Visualising a scalar field using ``pyvista``.

        >>> import discretisedfield as df
        ...
        >>> p1 = (0, 0, 0)
        >>> p2 = (100, 100, 100)
        >>> n = (10, 10, 10)
        >>> mesh = df.Mesh(p1=p1, p2=p2, n=n)
        >>> field = df.Field(mesh, nvdim=1, value=1)
        ...
        >>> field.pyvista.volume() # doctest: +SKIP

        Raises
        ------
        RuntimeError

            If the it is not a scalar field.

        .. seealso::

            :py:func:`~discretisedfield.plotting.pyvista.scalar`
            :py:func:`~discretisedfield.plotting.pyvista.vector`
            :py:func:`~discretisedfield.plotting.pyvista.contour`
            :py:func:`~discretisedfield.plotting.pyvista.valid`

        """

        plot = pv.Plotter() if plotter is None else plotter

        if scalars is None and self.field.nvdim > 1:
            scalars = self.field.vdims[-1]

        multiplier = self._setup_multiplier(multiplier)

        self.field.mesh.scale(1 / multiplier, reference_point=(0, 0, 0), inplace=True)

        field_pv = pv.wrap(self.field.to_vtk())
        field_pv = field_pv.extract_cells(field_pv["valid"].astype(bool))

        plot.add_volume(
            field_pv,
            scalars=scalars,
            **kwargs,
        )

        self._add_empty_region(plot, multiplier, self.field.mesh.region)

        if plotter is None:
            plot.show()

        if filename is not None:
            plot_util._pyvista_save_to_file(filename, plot)

    def valid(self, plotter=None, multiplier=None, filename=None, **kwargs):
        """``pyvista`` valid plot.

        If ``plotter`` is not passed, a new `pyvista` plotter object is created
        automatically.

        For details about ``multiplier``, please refer to
        ``discretisedfield.Region.mpl``.

        Keyword arguments are passed onto ``pyvista.add_mesh``.

        Parameters
        ----------
        plotter : pyvista.Plotter, optional

            Plotter to which the plotter is added. Defaults to ``None``
            - plot is created internally.

        multiplier : numbers.Real, optional

            A scaling factor applied to the region dimensions. This can be useful for
            adjusting the region size for visualisation purposes. If ``None``, no
            scaling is applied. For more details, see ``discretisedfield.Region.mpl``.

        filename : str, optional

            The path or filename where the plot will be saved. If specified, the plot is
            saved to this file. The file format is inferred from the extension, which
            must be one of: 'png', 'jpeg', 'jpg', 'bmp', 'tif', 'tiff', 'svg', 'eps',
            'ps', 'pdf', or 'txt'. If `None`, the plot is not saved to a file.


        Examples
        --------
        1. Visualising the vector field using ``pyvista``.

        >>> import discretisedfield as df
        ...
        >>> p1 = (0, 0, 0)
        >>> p2 = (100, 100, 100)
        >>> n = (1, 2, 2)
        >>> mesh = df.Mesh(p1=p1, p2=p2, n=n)
        >>> valid = [[[True, True], [True, False]]]
        >>> field = df.Field(mesh, nvdim=1, value=1, valid=valid)
        ...
        >>> field.pyvista.valid() # doctest: +SKIP

        .. seealso::

            :py:func:`~discretisedfield.plotting.pyvista.scalar`
            :py:func:`~discretisedfield.plotting.pyvista.vector`
            :py:func:`~discretisedfield.plotting.pyvista.contour`

        """

        plot = pv.Plotter() if plotter is None else plotter

        # Default colour
        kwargs.setdefault("color", "blue")

        multiplier = self._setup_multiplier(multiplier)

        rescaled_mesh = self.field.mesh.scale(1 / multiplier, reference_point=(0, 0, 0))

        values = self.field.valid.astype(int)

        grid = pv.RectilinearGrid(*rescaled_mesh.vertices)
        grid.cell_data["values"] = values.flatten(order="F")
        threshed = grid.threshold(0.5, scalars="values")

        plot.add_mesh(threshed, **kwargs)

        self._add_empty_region(plot, multiplier, self.field.mesh.region)

        if plotter is None:
            plot.show()

        if filename is not None:
            plot_util._pyvista_save_to_file(filename, plot)

    def contour(
        self,
        isosurfaces=10,
        contour_scalars=None,
        plotter=None,
        multiplier=None,
        scalars=None,
        color_field=None,
        filename=None,
        contour_kwargs=None,
        **kwargs,
    ):
        """``pyvista`` contour plot.

        This method computes isosurfaces of the field. Users can specify
        the number of evenly spaced isosurfaces or provide specific
        values for which isosurfaces should be computed.

        Parameters
        ----------
        isosurfaces : int | sequence[float], optional

            Number of isosurfaces to compute across valid data range
            or a sequence of float values to explicitly use as
            the isosurfaces. Defaults to 10.

        contour_scalars : str, optional

            The name of the field's vector dimension used for the isosurfaces.
            By default, the last vector dimension of the field is used.

        plotter : pyvista.Plotter, optional

            Plotter to which the plotter is added. Defaults to ``None``
            - plot is created internally.

        multiplier : numbers.Real, optional

            A scaling factor applied to the region dimensions. This can be useful for
            adjusting the region size for visualisation purposes. If ``None``, no
            scaling is applied. For more details, see ``discretisedfield.Region.mpl``.

        scalars : str, optional

            The name of the field's vector dimension used to determine the colour.
            By default, the last vector dimension of the field is used.

        color_field : discretisedfield.field, optional

            A scalar field used for colouring. Defaults to ``None``
            and the colouring is based on ``scalars``. If provided,
            ``scalars`` are ignored.

        filename : str, optional

            The path or filename where the plot will be saved. If specified, the plot is
            saved to this file. The file format is inferred from the extension, which
            must be one of: 'png', 'jpeg', 'jpg', 'bmp', 'tif', 'tiff', 'svg', 'eps',
            'ps', 'pdf', or 'txt'. If `None`, the plot is not saved to a file.

        contour_kwargs : dict, optional

            keyword argument to pass to ``pyvista.contour`` function.

        **kwargs

            Arbitrary keyword arguments that are passed to `pyvista.add_mesh`,
            allowing for additional customisation.

        Examples
        --------
        1. Visualising a field using ``pyvista``.

        >>> import discretisedfield as df
        ...
        >>> p1 = (0, 0, 0)
        >>> p2 = (100, 100, 100)
        >>> n = (10, 10, 10)
        >>> mesh = df.Mesh(p1=p1, p2=p2, n=n)
        >>> field = mesh.coordinate_field()
        ...
        >>> field.pyvista.contour() # doctest: +SKIP

        .. seealso::

            :py:func:`~discretisedfield.plotting.pyvista.scalar`
            :py:func:`~discretisedfield.plotting.pyvista.vector`
            :py:func:`~discretisedfield.plotting.pyvista.contour`
            :py:func:`~discretisedfield.plotting.pyvista.valid`

        """

        if contour_kwargs is None:
            contour_kwargs = {}

        if self.field.nvdim > 1 and "scalars" not in contour_kwargs:
            if contour_scalars is None:
                contour_kwargs["scalars"] = self.field.vdims[-1]
            else:
                contour_kwargs["scalars"] = contour_scalars

        if color_field is not None:
            if color_field.nvdim != 1:
                raise ValueError(f"Cannot use {color_field.nvdim=}.")
            if not self.field.mesh.allclose(color_field.mesh):
                raise ValueError("The color_field has to be defined on the same mesh.")

        if scalars is None and self.field.nvdim > 1:
            scalars = self.field.vdims[-1]

        plot = pv.Plotter() if plotter is None else plotter

        multiplier = self._setup_multiplier(multiplier)

        self.field.mesh.scale(1 / multiplier, reference_point=(0, 0, 0), inplace=True)

        field_pv = pv.wrap(self.field.to_vtk())
        if color_field is not None:
            field_pv["color_field"] = pv.wrap(color_field.to_vtk())["field"]
            scalars = "color_field"
        field_pv = field_pv.extract_cells(
            field_pv["valid"].astype(bool)
        ).cell_data_to_point_data()

        plot.add_mesh(
            field_pv.contour(isosurfaces=isosurfaces, **contour_kwargs),
            smooth_shading=True,
            scalars=scalars,
            **kwargs,
        )

        self._add_empty_region(plot, multiplier, self.field.mesh.region)
        plot.enable_eye_dome_lighting()

        if plotter is None:
            plot.show()

        if filename is not None:
            plot_util._pyvista_save_to_file(filename, plot)

    def streamlines(
        self,
        plotter=None,
        multiplier=None,
        scalars=None,
        color_field=None,
        filename=None,
        streamlines_kwargs=None,
        tube_kwargs=None,
        **kwargs,
    ):
        """``pyvista`` streamline plot.

        Generates a plot of streamlines based on ``pyvista.streamlines``
        Users will need to vary the parameters from the default values
        on a case by case basis.

        Parameters
        ----------
        plotter : pyvista.Plotter, optional

            Plotter to which the plotter is added. Defaults to ``None``
            - plot is created internally.

        multiplier : numbers.Real, optional

            A scaling factor applied to the region dimensions. This can be useful for
            adjusting the region size for visualisation purposes. If ``None``, no
            scaling is applied. For more details, see ``discretisedfield.Region.mpl``.

        scalars : str, optional

            The name of the field's vector dimension used to determine the colour.
            By default, the last vector dimension of the field is used.

        color_field : discretisedfield.field, optional

            A scalar field used for colouring. Defaults to ``None``
            and the colouring is based on ``scalars``. If provided,
            ``scalars`` are ignored.

        filename : str, optional

            The path or filename where the plot will be saved. If specified, the plot is
            saved to this file. The file format is inferred from the extension, which
            must be one of: 'png', 'jpeg', 'jpg', 'bmp', 'tif', 'tiff', 'svg', 'eps',
            'ps', 'pdf', or 'txt'. If `None`, the plot is not saved to a file.

        streamlines_kwargs : dict, optional

            Keyword arguments for the `pyvista.streamlines` function that generates the
            streamline geometry from the vector field data. If not provided, the default
            keys are ``max_time=10`` and ``n_points=20``.

        tube_kwargs : dict, optional

            Keyword arguments for the `pyvista.tube` function that creates
            tubes around the streamlines. If not provided, the default keys
            are ``radius=0.05``.

        **kwargs

            Arbitrary keyword arguments passed directly to `pyvista.add_mesh`,
            allowing for further customization of the plot.

        Examples
        --------
        1. Visualising a field using ``pyvista``.

        >>> import discretisedfield as df
        ...
        >>> p1 = (0, 0, 0)
        >>> p2 = (100, 100, 100)
        >>> n = (10, 10, 10)
        >>> mesh = df.Mesh(p1=p1, p2=p2, n=n)
        >>> field = mesh.coordinate_field()
        ...
        >>> field.pyvista.streamlines() # doctest: +SKIP

        Raises
        ------
        RuntimeError

            If the field does not have three value dimensions.

        .. seealso::

            :py:func:`~discretisedfield.plotting.pyvista.scalar`
            :py:func:`~discretisedfield.plotting.pyvista.vector`
            :py:func:`~discretisedfield.plotting.pyvista.contour`
            :py:func:`~discretisedfield.plotting.pyvista.valid`

        """
        if tube_kwargs is None:
            tube_kwargs = {}
        if streamlines_kwargs is None:
            streamlines_kwargs = {}
        if self.field.nvdim != 3:
            raise RuntimeError(
                "Only meshes with 3 vector dimensions can be plotted not"
                f" {self.field.mesh.region.ndim=}."
            )

        streamlines_default_values = {
            "max_time": 10,
            "n_points": 20,
        }

        tube_default_values = {
            "radius": 0.05,
        }

        if streamlines_kwargs is None:
            streamlines_kwargs = streamlines_default_values
        else:
            for key, value in streamlines_default_values.items():
                streamlines_kwargs.setdefault(key, value)

        if tube_kwargs is None:
            tube_kwargs = tube_default_values
        else:
            for key, value in tube_default_values.items():
                tube_kwargs.setdefault(key, value)

        plot = pv.Plotter() if plotter is None else plotter

        if scalars is None and self.field.nvdim > 1:
            scalars = self.field.vdims[-1]

        multiplier = self._setup_multiplier(multiplier)

        self.field.mesh.scale(1 / multiplier, reference_point=(0, 0, 0), inplace=True)

        field_pv = pv.wrap(self.field.to_vtk())
        if color_field is not None:
            field_pv["color_field"] = pv.wrap(color_field.to_vtk())["field"]
            scalars = "color_field"
        field_pv = field_pv.extract_cells(
            field_pv["valid"].astype(bool)
        ).cell_data_to_point_data()

        streamlines = field_pv.streamlines("field", **streamlines_kwargs)

        plot.add_mesh(
            streamlines.tube(**tube_kwargs),
            scalars=scalars,
            **kwargs,
        )

        self._add_empty_region(plot, multiplier, self.field.mesh.region)
        plot.enable_eye_dome_lighting()

        if plotter is None:
            plot.show()

        if filename is not None:
            plot_util._pyvista_save_to_file(filename, plot)

    def _setup_multiplier(self, multiplier):
        return self.field.mesh.region.multiplier if multiplier is None else multiplier

    def _axis_labels(self, multiplier):
        return [
            rf"{dim} ({uu.rsi_prefixes[multiplier]}{unit})"
            for dim, unit in zip(
                self.field.mesh.region.dims, self.field.mesh.region.units
            )
        ]

    def _add_empty_region(self, plotter, multiplier, region):
        label = self._axis_labels(multiplier)
        # Bounds only needed due to bug in pyvista.
        # Usually we could just use add_axes but they were not plotted
        # over the full region.
        bounds = tuple(val for pair in zip(region.pmin, region.pmax) for val in pair)
        box = pv.Box(bounds)
        plotter.add_mesh(box, opacity=0.0)
        plotter.show_grid(xtitle=label[0], ytitle=label[1], ztitle=label[2])

    def _save_to_file(self, filename, plot):
        extension = filename.split(".")[-1] if "." in filename else None
        if extension in ["png", "jpeg", "jpg", "bmp", "tif", "tiff"]:
            plot.screenshot(filename=filename)
        elif extension in ["svg", "eps", "ps", "pdf", "tex"]:
            plot.save_graphic(filename=filename)
        else:
            raise ValueError(
                f"{extension} extension is not supported. The supported formats are"
                " png, jpeg, jpg, bmp, tif, tiff, svg, eps, ps, pdf, and txt."
            )
