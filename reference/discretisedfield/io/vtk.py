import contextlib
import pathlib

import numpy as np
from vtkmodules.util import numpy_support as vns
from vtkmodules.vtkIOLegacy import vtkRectilinearGridReader, vtkRectilinearGridWriter
from vtkmodules.vtkIOXML import vtkXMLRectilinearGridReader, vtkXMLRectilinearGridWriter

import discretisedfield as df


class _FieldIO_VTK:
    __slots__ = []

    def _to_vtk(self, filename, representation="bin", save_subregions=True):
        filename = pathlib.Path(filename)
        if representation == "xml":
            writer = vtkXMLRectilinearGridWriter()
        elif representation in ["bin", "bin8", "txt"]:
            # Allow bin8 for convenience as this is the default for omf.
            # This does not affect the actual datatype used in vtk files.
            writer = vtkRectilinearGridWriter()
        else:
            raise ValueError(f"Unknown {representation=}.")

        if representation == "txt":
            writer.SetFileTypeToASCII()
        elif representation in ["bin", "bin8"]:
            writer.SetFileTypeToBinary()
        # xml has no distinction between ascii and binary

        writer.SetFileName(str(filename))
        # Convert field to VTK before writing subregion information because
        # to_vtk will fail if ndim is not correct
        writer.SetInputData(self.to_vtk())

        if save_subregions and self.mesh.subregions:
            self.mesh.save_subregions(filename)

        writer.Write()

    @classmethod
    def _from_vtk(cls, filename):
        filename = pathlib.Path(filename)
        with filename.open("rb") as f:
            xml = "xml" in f.readline().decode("utf8")
        if xml:
            reader = vtkXMLRectilinearGridReader()
        else:
            reader = vtkRectilinearGridReader()
            reader.ReadAllVectorsOn()
            reader.ReadAllScalarsOn()
        reader.SetFileName(str(filename))
        reader.Update()

        output = reader.GetOutput()
        p1 = output.GetBounds()[::2]
        p2 = output.GetBounds()[1::2]
        n = [i - 1 for i in output.GetDimensions()]

        cell_data = output.GetCellData()

        if cell_data.GetNumberOfArrays() == 0:
            # Old writing routine did write to points instead of cells.
            return cls._from_vtk_legacy(filename)

        valid_idx = None

        vdims = []
        for i in range(cell_data.GetNumberOfArrays()):
            name = cell_data.GetArrayName(i)
            if name == "field":
                field_idx = i
            elif name == "valid":
                valid_idx = i
            elif name not in ["norm"]:
                vdims.append(name)
        array = cell_data.GetArray(field_idx)
        dim = array.GetNumberOfComponents()

        if len(vdims) != dim:
            vdims = None

        value = vns.vtk_to_numpy(array).reshape(*reversed(n), dim)
        value = value.transpose((2, 1, 0, 3))

        if valid_idx is not None:
            valid_array = cell_data.GetArray(valid_idx)
            valid = vns.vtk_to_numpy(valid_array).reshape(*reversed(n))
            valid = valid.transpose((2, 1, 0))
        else:
            valid = True

        mesh = df.Mesh(p1=p1, p2=p2, n=n)
        with contextlib.suppress(FileNotFoundError):
            mesh.load_subregions(filename)

        return cls(mesh, nvdim=dim, value=value, vdims=vdims, valid=valid)

    @classmethod
    def _from_vtk_legacy(cls, filename):
        """Read the field from a VTK file (legacy).

        This method reads vtk files written with discretisedfield <= 0.61.0
        in which the data is stored as point data instead of cell data.
        """
        with open(filename) as f:
            content = f.read()
        lines = content.split("\n")

        # Determine the dimension of the field.
        if "VECTORS" in content:
            dim = 3
            data_marker = "VECTORS"
            skip = 0  # after how many lines data starts after marker
        else:
            dim = 1
            data_marker = "SCALARS"
            skip = 1

        # Extract the metadata
        mdatalist = ["X_COORDINATES", "Y_COORDINATES", "Z_COORDINATES"]
        n = []
        cell = []
        origin = []
        for i, line in enumerate(lines):
            for mdatum in mdatalist:
                if mdatum in line:
                    n.append(int(line.split()[1]))
                    coordinates = list(map(float, lines[i + 1].split()))
                    origin.append(coordinates[0])
                    if len(coordinates) > 1:
                        cell.append(coordinates[1] - coordinates[0])
                    else:
                        # If only one cell exists, 1nm cell is used by default.
                        cell.append(1e-9)

        # Create objects from metadata info
        p1 = np.subtract(origin, np.multiply(cell, 0.5))
        p2 = np.add(p1, np.multiply(n, cell))
        mesh = df.Mesh(region=df.Region(p1=p1, p2=p2), n=n)
        with contextlib.suppress(FileNotFoundError):
            mesh.load_subregions(filename)
        field = df.Field(mesh, nvdim=dim)

        # Find where data starts.
        for i, line in enumerate(lines):
            if line.startswith(data_marker):
                start_index = i
                break

        # Extract data.
        for i, line in zip(mesh.indices, lines[start_index + skip + 1 :]):
            if not line[0].isalpha():
                field.array[i] = list(map(float, line.split()))

        return field
