"""OVF to VTK file conversion."""

import argparse

import discretisedfield as df


def ovf2vtk():
    """OVF to VTK conversion function.

    This method is used for command-line conversion of OVF files to VTK.

    """
    parser = argparse.ArgumentParser(
        prog="ovf2vtk", description="ovf2vtk - OVF to VTK file format conversion."
    )
    parser.add_argument(
        "--input", "-i", nargs="+", required=True, help="Input OVF file(s)."
    )
    parser.add_argument(
        "--output", "-o", nargs="+", required=False, help="Output VTK file(s)."
    )
    args = parser.parse_args()

    if args.output:
        if len(args.input) != len(args.output):
            msg = (
                f"The number of input files ({len(args.input)}) does not "
                f"match the number of output files ({len(args.output)})."
            )
            raise ValueError(msg)
    else:
        # Output filenames are not provided and they are generated
        # automatically.
        args.output = [f"{filename[:-4]}.vtk" for filename in args.input]

    for input_file, output_file in zip(args.input, args.output):
        field = df.Field.from_file(input_file)
        field.to_file(output_file)


if __name__ == "__main__":
    ovf2vtk()
