import contextlib
import datetime

import h5py
import numpy as np

import discretisedfield as df


class _RegionIO_HDF5:
    __slots__ = []

    _h5_attrs = ("pmin", "pmax", "dims", "ndim", "units", "tolerance_factor")

    def _h5_save(self, h5_region: h5py.Group):
        for attr in self._h5_attrs:
            h5_region.attrs[attr] = getattr(self, attr)

    @classmethod
    def _h5_load(cls, h5_region: h5py.Group):
        return cls(**{attr: h5_region.attrs[attr] for attr in cls._h5_attrs})


class _MeshIO_HDF5:
    __slots__ = []

    def _h5_save(self, h5_mesh: h5py.Group):
        """
        Create a group for the underlying region and call the region save method.
        Save mesh attributes ``n`` and ``bc``. If subregions are defined for the mesh,
        these are saved into two datasets ``subregion_names`` and ``subregions``. The
        latter contains pmin and pmax as 2*ndim vectors. The two datasets are related
        via position. If no subregions are defined, the datasets will not be created.
        """
        h5_region = h5_mesh.create_group("region")
        self.region._h5_save(h5_region)

        for attr in ["n", "bc"]:
            h5_mesh.attrs[attr] = getattr(self, attr)

        if len(self.subregions) > 0:
            h5_mesh.create_dataset("subregion_names", data=list(self.subregions.keys()))
            h5_mesh_subregions = h5_mesh.create_dataset(
                "subregions",
                (len(self.subregions), 2 * self.region.ndim),
                dtype=np.result_type(
                    *(p for sr in self.subregions.values() for p in (sr.pmin, sr.pmax))
                ),
            )
            for i, subregion in enumerate(self.subregions.values()):
                h5_mesh_subregions[i] = [*subregion.pmin, *subregion.pmax]

    @classmethod
    def _h5_load(cls, h5_mesh: h5py.Group):
        region = df.Region._h5_load(h5_mesh["region"])
        if "subregions" in h5_mesh:
            subregions = {
                name.decode("utf-8"): df.Region(
                    p1=data[: region.ndim], p2=data[region.ndim :]
                )
                for name, data in zip(h5_mesh["subregion_names"], h5_mesh["subregions"])
            }
        else:
            subregions = {}
        return cls(
            region=region,
            n=h5_mesh.attrs["n"],
            bc=h5_mesh.attrs["bc"],
            subregions=subregions,
        )


class _FieldIO_HDF5:
    __slots__ = []

    def _to_hdf5(self, filename):
        """Save a single field in a new hdf5 file."""
        utc_now = datetime.datetime.now(datetime.timezone.utc).isoformat(
            timespec="seconds"
        )
        with h5py.File(filename, "w") as f:
            f.attrs["ubermag-hdf5-file-version"] = "0.1"
            f.attrs["discretisedfield.__version__"] = df.__version__
            f.attrs["file-creation-time-UTC"] = utc_now
            f.attrs["type"] = "discretisedfield.Field"

            h5_field = f.create_group("field")
            h5_field_data = self._h5_save_structure(
                h5_field, data_shape=(*self.mesh.n, self.nvdim)
            )

            self._h5_save_data(h5_field_data, slice(None))

    def _h5_save_structure(self, h5_field: h5py.Group, data_shape: tuple):
        """
        Save the 'field structure', that is the mesh, field attributes and valid, into
        an existing hdf5 group and create an ``h5py.Dataset`` for the field data with a
        given ``data_shape``. The shape can have additional dimensions, e.g. an extra
        first dimension for a time series that should be stored in the hdf5 file. Valid
        is always static and does not support extra dimensions. The field data is NOT
        saved.

        The ``h5py.Dataset`` that will store the field values is returned.
        """
        h5_mesh = h5_field.create_group("mesh")
        self.mesh._h5_save(h5_mesh)

        h5_field.attrs["nvdim"] = self.nvdim
        h5_field.attrs["vdims"] = self.vdims if self.vdims is not None else "None"
        h5_field.attrs["unit"] = str(self.unit)

        # empty dataset that can later contain field.array
        h5_field_data = h5_field.create_dataset(
            "array", data_shape, dtype=self.array.dtype
        )

        h5_field.create_dataset("valid", data=self.valid, dtype=np.bool_)

        return h5_field_data

    def _h5_save_data(self, h5_field_data: h5py.Dataset, location):
        """
        Save field data into an existing hdf5 dataset at a given ``location`` inside the
        dataset. For a single field in that dataset the ``location``` refers to the
        whole dataset (``slice(None)``). Other values for ``location`` are useful to
        save a single field into a bigger dataset, e.g. a dataset meant to contain a
        time series.
        """
        h5_field_data[location] = self.array

    @classmethod
    def _from_hdf5(cls, filename):
        """Read an hdf5 file containing a single Field object."""
        with h5py.File(filename, "r") as f:
            if "ubermag-hdf5-file-version" not in f.attrs:
                return cls._h5_legacy_load_field(f, filename)
            if f.attrs["type"] != "discretisedfield.Field":
                raise ValueError(
                    f"{cls} cannot read hdf5 files with type {f.attrs['type']}."
                )
            # check for the correct version; in the future multiple code paths may
            # be required to handle different versions
            assert f.attrs["ubermag-hdf5-file-version"] in ["0.1"]
            return cls._h5_load_field(f["field"], slice(None))

    @classmethod
    def _h5_load_field(cls, h5_field: h5py.Group, data_location):
        """
        Load a Field from an hdf5 group containing a single field. The hdf5 dataset
        ``array`` containing the field data can contain data for multiple fields on the
        same mesh (e.g. in a time series). The correct part of the array can be selected
        with ``data_location``.
        """
        vdims = h5_field.attrs["vdims"]
        if isinstance(vdims, str) and vdims == "None":
            vdims = None
        unit = h5_field.attrs["unit"]
        if unit == "None":
            unit = None
        return cls(
            mesh=df.Mesh._h5_load(h5_field["mesh"]),
            nvdim=h5_field.attrs["nvdim"],
            value=h5_field["array"][data_location],
            vdims=vdims,
            unit=unit,
            valid=h5_field["valid"],
            dtype=h5_field["array"].dtype,
        )

    @classmethod
    def _h5_legacy_load_field(cls, h5_file: h5py.Group, filename):
        """
        Reads old hdf5 files written prior to introducing ubermag-hdf5-file-version.
        These lack most of the additional metadata defined in the new standard.
        """
        p1 = tuple(h5_file["field/mesh/region/p1"])
        p2 = tuple(h5_file["field/mesh/region/p2"])
        n = np.array(h5_file["field/mesh/n"]).tolist()
        dim = np.array(h5_file["field/dim"]).tolist()
        array = h5_file["field/array"]

        mesh = df.Mesh(region=df.Region(p1=p1, p2=p2), n=n)
        with contextlib.suppress(FileNotFoundError):
            mesh.load_subregions(filename)

        return cls(mesh, nvdim=dim, value=array[:], dtype=array.dtype)
