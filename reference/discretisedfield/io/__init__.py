"""Functions to save and load fields.

This module contains functions to save and load ``discretisedfield.Field`` objects.
Generally, their direct use is discouraged. Use :py:func:`discretisedfield.Field.write`
and :py:func:`discretisedfield.Field.fromfile` instead.

"""

import json
import pathlib

import numpy as np

import discretisedfield as df
from .hdf5 import _FieldIO_HDF5, _MeshIO_HDF5, _RegionIO_HDF5
from .ovf import _FieldIO_OVF
from .vtk import _FieldIO_VTK


class _RegionIO(_RegionIO_HDF5):
    __slots__ = []

    class _JSONEncoder(json.JSONEncoder):
        def default(self, o):
            if isinstance(o, df.Region):
                return o.to_dict()
            elif isinstance(o, np.ndarray):
                return tuple(o)
            elif isinstance(o, (np.int32, np.int64)):
                return int(o)
            elif isinstance(o, (np.float32, np.float64)):
                return float(o)
            else:
                super().default(o)


class _MeshIO(_MeshIO_HDF5):
    __slots__ = []

    def save_subregions(self, field_filename):
        """Save subregions to json file."""
        with pathlib.Path(self._subregion_filename(field_filename)).open(
            mode="wt", encoding="utf-8"
        ) as f:
            json.dump(self.subregions, f, cls=df.Region._JSONEncoder)

    def load_subregions(self, field_filename):
        """Load subregions from json file."""
        with pathlib.Path(self._subregion_filename(field_filename)).open(
            mode="rt", encoding="utf-8"
        ) as f:
            subregions = json.load(f)
        self.subregions = {key: df.Region(**val) for key, val in subregions.items()}

    @staticmethod
    def _subregion_filename(filename):
        return f"{str(filename)}.subregions.json"


class _FieldIO(_FieldIO_HDF5, _FieldIO_OVF, _FieldIO_VTK):
    __slots__ = []

    def to_file(
        self, filename, representation="bin8", extend_scalar=False, save_subregions=True
    ):
        """Write the field to OVF, HDF5, or VTK file.

        For ``.ovf``, ``.omf``, or ``.ohf`` extensions the field is saved in an OVF 2.0
        file. Possible values for `representation` of the data are ``'bin4'``,
        ``'bin8'``, or ``'txt'``. If ``extend_scalar=True``, a scalar field will be
        saved as a vector field. More precisely, if the value at a cell is X, that cell
        will be saved as (X, 0, 0). Subregions are automatically saved in a separate
        json file for ``save_subregions=True``.

        If the extension of `filename` is ``.vtk``, a VTK file is written. Possible
        values for `representation` are ``'bin'`` (``'bin8'`` as an equivalent for
        convenience), ``'txt'``, or ``'xml'``. The data is saved as a
        ``RECTILINEAR_GRID``. A scalar field (``nvdim=1``) is saved as ``SCALARS``. A
        vector field (``nvdim>=1``) is saved as both ``VECTORS`` as well as ``SCALARS``
        for all the components to enable easier colouring of vectors in some
        visualisation packages. The data is stored as ``CELL_DATA``. Subregions are
        automatically saved in a separate json file for ``save_subregions=True``.
        `extend_scalar` has no effect for VTK files. The saved VTK file can be opened
        with `Paraview <https://www.paraview.org/>`_ or `Mayavi
        <https://docs.enthought.com/mayavi/mayavi/>`_. To show contour lines in Paraview
        one has to first convert Cell Data to Point Data using a filter.

        If the extension of `filename` is ``.hdf5`` or ``.h5`` an HDF5 file will be
        written. The parameters `representation`, `extend_scalar` and `save_subregions`
        have no effect for HDF5 files and are silently ignored. Subregions are stored
        inside the HDF5 file, if any are defined for the field.

        Parameters
        ----------
        filename : str

            Name of the file written. The suffix determines the file type.

        representation : str, optional

            Only supported for OVF and VTK files. In the case of OVF files (``.ovf``,
            ``.omf``, or ``.ohf``) the representation can be ``'bin4'``, ``'bin8'``, or
            ``'txt'``. For VTK files (``.vtk``) the representation can be ``bin``
            (``bin8``), ``xml``, or ``txt``. Defaults to ``'bin8'`` (interpreted as
            ``bin`` for VTK files).

        extend_scalar : bool, optional

            If ``True``, a scalar field will be saved as a vector field. More precisely,
            if the value at a cell is 3, that cell will be saved as (3, 0, 0). This is
            valid only for the OVF file formats. Defaults to ``False``.

        save_subregions : bool, optional

            If ``True`` and subregions are defined for the mesh the subregions will be
            saved to a json file. Defaults to ``True``. This has no effect for HDF5
            files which always contain subregions in the file.

        See also
        --------
        ~discretisedfield.Field.from_file

        Example
        -------
        1. Write field to an OVF file.

        >>> import os
        >>> import discretisedfield as df
        ...
        >>> p1 = (0, 0, -5e-9)
        >>> p2 = (5e-9, 15e-9, 15e-9)
        >>> n = (5, 15, 20)
        >>> mesh = df.Mesh(p1=p1, p2=p2, n=n)
        >>> field = df.Field(mesh, nvdim=3, value=(5, 6, 7))
        ...
        >>> filename = 'mytestfile.omf'
        >>> field.to_file(filename)  # write the file
        >>> os.path.isfile(filename)
        True
        >>> field_read = df.Field.from_file(filename)  # read the file
        >>> field_read == field
        True
        >>> os.remove(filename)  # delete the file

        2. Write field to a VTK file.

        >>> filename = 'mytestfile.vtk'
        >>> field.to_file(filename)  # write the file
        >>> os.path.isfile(filename)
        True
        >>> field_read = df.Field.from_file(filename)  # read the file
        >>> field_read == field
        True
        >>> os.remove(filename)  # delete the file

        3. Write field to an HDF5 file.

        >>> filename = 'mytestfile.hdf5'
        >>> field.to_file(filename)  # write the file
        >>> os.path.isfile(filename)
        True
        >>> field_read = df.Field.from_file(filename)  # read the file
        >>> field_read == field
        True
        >>> os.remove(filename)  # delete the file

        """
        filename = pathlib.Path(filename)
        if filename.suffix in [".omf", ".ovf", ".ohf"]:
            self._to_ovf(
                filename,
                representation=representation,
                extend_scalar=extend_scalar,
                save_subregions=save_subregions,
            )
        elif filename.suffix == ".vtk":
            self._to_vtk(
                filename,
                representation=representation,
                save_subregions=save_subregions,
            )
        elif filename.suffix in [".hdf5", ".h5"]:
            self._to_hdf5(filename)
        else:
            raise ValueError(
                f"Writing file with extension {filename.suffix} not supported."
            )

    @classmethod
    def fromfile(cls, filename):
        raise AttributeError("This method has been renamed to 'from_file'.")

    @classmethod
    def from_file(cls, filename):
        """Read a field from an OVF (1.0 or 2.0), VTK, or HDF5 file.

        The extension of `filename` can be:
            - ``.ovf``, ``.omf``, ``.ohf`` or ``.oef`` for OVF files,
            - ``.vtk`` for VTK files, or
            - ``.hdf5`` or ``.h5`` for HDF5 files.

        This method automatically determines the file type based on the extension of
        `filename`.

        For OVF the data representation (``txt``, ``bin4``, or ``bin8``) as well as the
        OVF version (OVF1.0 or OVF2.0) are extracted from the file itself. Mesh
        subregions are loaded from a separate json file if it exists.

        For VTK files this method reads the field from a VTK file containing a
        ``RECTILINEAR_GRID`` written by ``discretisedfield.to_file``. It expects the
        data do be specified as cell data and one (vector) field with the name
        ``field``. A vector field should also contain data for the individual
        components. The individual component names are used as ``vdims`` for the new
        field. They must appear in the form ``<componentname>-component``. Older
        versions of discretisedfield did write the data as point data instead of cell
        data. This function can load new and old files and automatically extract the
        correct data without additional user input. Mesh subregions are loaded from a
        separate json file if it exists.

        For HDF5 files written with discretisedfield version 0.90.0 or newer all data is
        contained in the file. No separate json file for subregions is read. Older
        versions of discretisedfield did not save all attributes (e.g. no
        subregions). Reading old files is automatically handled internally. For old HDF5
        files subregions can be read from disk if they were saved in a separate json
        file.

        Parameters
        ----------
        filename : str

            Name of the file to be read.

        Returns
        -------
        discretisedfield.Field

            Field read from the file.

        See also
        --------
        ~discretisedfield.Field.to_file

        Example
        -------
        1. Read the field from an OVF file.

        >>> import os
        >>> import discretisedfield as df
        ...
        >>> dirname = os.path.join(os.path.dirname(__file__),
        ...                        '..', 'tests', 'test_sample')
        >>> filename = os.path.join(dirname, 'oommf-ovf2-bin4.omf')
        >>> field = df.Field.from_file(filename)
        >>> field
        Field(...)

        2. Read a field from a VTK file.

        >>> filename = os.path.join(dirname, 'vtk-file.vtk')
        >>> field = df.Field.from_file(filename)
        >>> field
        Field(...)

        3. Read a field from an HDF5 file.

        >>> filename = os.path.join(dirname, 'hdf5-file.hdf5')
        >>> field = df.Field.from_file(filename)
        >>> field
        Field(...)

        """
        filename = pathlib.Path(filename)
        if filename.suffix in [".omf", ".ovf", ".ohf", ".oef"]:
            return cls._from_ovf(filename)
        elif filename.suffix == ".vtk":
            return cls._from_vtk(filename)
        elif filename.suffix in [".hdf5", ".h5"]:
            return cls._from_hdf5(filename)
        else:
            raise ValueError(
                f"Reading file with extension {filename.suffix} not supported."
            )
