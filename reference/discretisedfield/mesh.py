import collections
import contextlib
import itertools
import numbers
import warnings
from numbers import Integral, Number

import ipywidgets
import numpy as np
import scipy.fft as spfft
import ubermagutil.units as uu

import discretisedfield as df
import discretisedfield.plotting as dfp
import discretisedfield.util as dfu
from . import html
from .io import _MeshIO


class Mesh(_MeshIO):
    """Finite-difference mesh.

    Mesh discretises the ``discretisedfield.Region``, passed as ``region``,
    using a regular finite-difference mesh. Since the region spans between
    two points :math:`\\mathbf{p}_{1}` and :math:`\\mathbf{p}_{2}`, these
    points can be passed as ``p1`` and ``p2``, instead of passing
    ``discretisedfield.Region`` object. In this case
    ``discretisedfield.Region`` is created internally. Either ``region`` or
    ``p1`` and ``p2`` can be passed, not both. The region is discretised using
    a finite-difference cell, whose dimensions are defined with ``cell``.
    Alternatively, the domain can be discretised by passing the number of
    discretisation cells ``n`` in all three dimensions. Either ``cell`` or
    ``n`` can be passed, not both.

    It is possible to define boundary conditions (bc) for the mesh by passing a string
    to ``bc``.

    If it is necessary to define subregions in the mesh, a dictionary can be
    passed using ``subregions``. More precisely, dictionary keys are strings
    (valid Python variable names), whereas values are
    ``discretisedfield.Region`` objects. It is necessary that subregions belong
    to the mesh region, are an aggregate of a discretisation cell, and are
    "aligned" with the mesh. If not, ``ValueError`` is raised.

    In order to properly define a mesh, mesh region must be an aggregate of
    discretisation cells. Otherwise, ``ValueError`` is raised.

    Parameters
    ----------
    region : discretisedfield.Region, optional

        Cubic region to be discretised on a regular mesh. Either ``region`` or
        ``p1`` and ``p2`` should be defined, not both. Defaults to ``None``.

    p1 / p2 : array_like, optional

        Diagonally-opposite region points, for example for three dimensions
        :math:`\\mathbf{p} = (p_{x}, p_{y}, p_{z})`. Either ``region`` or ``p1`` and
        ``p2`` should be defined, not both. Defaults to ``None``.

    cell : array_like, optional

        Discretisation cell size, for example for three dimensions
        :math:`(d_{x}, d_{y}, d_{z})`. Either ``cell`` or ``n`` should be defined, not
        both. Defaults to ``None``.

    n : array_like, optional

        The number of discretisation cells, for example for three dimensions
        :math:`(n_{x}, n_{y}, n_{z})`. Either ``cell`` or ``n`` should be defined, not
        both. Defaults to ``None``.

    bc : str, optional

        Periodic boundary conditions in geometrical directions. It is a string
        consisting of one or more characters representing the name of the direction(s)
        as present in ``self.region.dims``, denoting the direction(s) along which the
        mesh is periodic. In the case of Neumann or Dirichlet boundary condition, string
        ``'neumann'`` or ``'dirichlet'`` is passed. Defaults to an empty string.

    subregions : dict, optional

        A dictionary defining subregions in the mesh. The keys of the
        dictionary are the region names (``str``) as valid Python variable
        names, whereas the values are ``discretisedfield.Region`` objects.
        Defaults to an empty dictionary.

    Raises
    ------
    ValueError

        If mesh domain is not an aggregate of discretisation cells.
        Alternatively, if both ``region`` as well as ``p1`` and ``p2`` or both
        ``cell`` and ``n`` are passed.

        Alternatively if one of the subregions is: (i) not in the mesh region,
        (ii) it is not an aggregate of discretisation cell, or (iii) it is not
        aligned with the mesh.

    Examples
    --------
    1. Defining a nano-sized thin film mesh by passing ``region`` and ``cell``
    parameters.

    >>> import discretisedfield as df
    ...
    >>> p1 = (-50e-9, -25e-9, 0)
    >>> p2 = (50e-9, 25e-9, 5e-9)
    >>> cell = (1e-9, 1e-9, 0.1e-9)
    >>> region = df.Region(p1=p1, p2=p2)
    >>> mesh = df.Mesh(region=region, cell=cell)
    >>> mesh
    Mesh(...)

    2. Defining a nano-sized thin film mesh by passing ``p1``, ``p2`` and ``n``
    parameters.

    >>> n = (100, 50, 5)
    >>> mesh = df.Mesh(p1=p1, p2=p2, n=n)
    >>> mesh
    Mesh(...)

    3. Defining a mesh with periodic boundary conditions in :math:`x` and
    :math:`y` directions.

    >>> bc = 'xy'
    >>> region = df.Region(p1=p1, p2=p2)
    >>> mesh = df.Mesh(region=region, n=n, bc=bc)
    >>> mesh
    Mesh(...)

    4. Defining a mesh with two subregions.

    >>> p1 = (0, 0, 0)
    >>> p2 = (100, 100, 100)
    >>> n = (10, 10, 10)
    >>> subregions = {'r1': df.Region(p1=(0, 0, 0), p2=(50, 100, 100)),
    ...               'r2': df.Region(p1=(50, 0, 0), p2=(100, 100, 100))}
    >>> mesh = df.Mesh(p1=p1, p2=p2, n=n, subregions=subregions)
    >>> mesh
    Mesh(...)

    5. An attempt to define a mesh, whose region is not an aggregate of
    discretisation cells in the :math:`z` direction.

    >>> p1 = (-25, 3, 0)
    >>> p2 = (25, 6, 1)
    >>> cell = (5, 3, 0.4)
    >>> mesh = df.Mesh(p1=p1, p2=p2, cell=cell)
    Traceback (most recent call last):
        ...
    ValueError: ...

    6. An attempt to define a mesh, whose subregion is not aligned.

    >>> p1 = (0, 0, 0)
    >>> p2 = (100, 100, 100)
    >>> cell = (10, 10, 10)
    >>> subregions = {'r1': df.Region(p1=(2, 0, 0), p2=(52, 100, 100))}
    >>> mesh = df.Mesh(p1=p1, p2=p2, subregions=subregions)
    Traceback (most recent call last):
        ...
    ValueError: ...

    """

    __slots__ = ["_region", "_n", "_bc", "_subregions"]

    # removed attribute: new method/property
    # implemented in __getattr__
    # to exclude methods from tap completion and documentation
    _removed_attributes = {"midpoints": "cells", "points": "cells"}

    def __init__(
        self,
        *,
        region=None,
        p1=None,
        p2=None,
        n=None,
        cell=None,
        bc="",
        subregions=None,
    ):
        # TODO NO MUTABLE DEFAULT
        if region is not None and p1 is None and p2 is None:
            if not isinstance(region, df.Region):
                raise TypeError("region must be of class discretisedfield.Region.")
            self._region = region
        elif region is None and p1 is not None and p2 is not None:
            self._region = df.Region(p1=p1, p2=p2)
        else:
            raise ValueError(
                "region, p1, and p2 cannot be None or passed simultaneously. Either"
                " pass region or both p1 and p2."
            )

        if cell is not None and n is None:
            # scalar data types for 1d regions
            if isinstance(cell, numbers.Real):
                cell = [cell]

            if not isinstance(cell, (tuple, list, np.ndarray)):
                raise TypeError(
                    "Cell must be either a tuple, a list, or a numpy.ndarray."
                )
            if len(cell) != self.region.ndim:
                raise ValueError("The cell must have same dimensions as the region.")
            elif not all(isinstance(i, Number) for i in cell):
                raise TypeError("The values of cell must be numbers.")
            elif not all(i > 0 for i in cell):
                raise ValueError("The values of cell must be positive numbers.")
            # Check if the cell size exceeds the region size
            if (
                df.Region(p1=self.region.pmin, p2=self.region.pmin + cell)
                not in self.region
            ):
                raise ValueError(
                    f"The cell size ({cell=}) exceeds the region size ({self.region=})."
                )
            # Check if the mesh region is an aggregate of the discretisation cell.
            tol = np.min(cell) * 1e-3  # tolerance
            rem = np.remainder(self.region.edges, cell)
            if np.logical_and(
                np.greater(rem, tol), np.less(rem, np.subtract(cell, tol))
            ).any():
                raise ValueError(
                    "Region cannot be divided into "
                    f"discretisation cells of size {cell=}."
                )
            self._n = np.divide(self.region.edges, cell).round().astype(int)

        elif n is not None and cell is None:
            # scalar data types for 1d regions
            if isinstance(n, numbers.Real):
                n = [n]
            if not isinstance(n, (tuple, list, np.ndarray)):
                raise TypeError("n must be either a tuple, a list or a numpy.ndarray.")
            if len(n) != self.region.ndim:
                raise ValueError("n must have same dimensions as the region.")
            elif not all(isinstance(i, Integral) for i in n):
                raise TypeError("The values of n must be integers.")
            elif not all(i > 0 for i in n):
                raise ValueError("The values of n must be positive integers.")
            self._n = np.array(n, dtype=int)

        else:
            raise ValueError(
                "Both n and cell cannot be None or passed simultaneously. Either pass n"
                " or cell."
            )

        self.bc = bc

        self.subregions = subregions

    @property
    def bc(self):
        """Boundary condition for the mesh.

        Periodic boundary conditions can be specified by passing a string containing one
        or more characters from ``self.region.dims`` (e.g. ``'x'``, ``'yz'``, ``'xyz'``
        for three dimensions). Neumann or Dirichlet boundary conditions are defined by
        passing ``'neumann'`` or ``'dirichlet'`` string. Neumann and Dirichlet boundary
        conditions are still experimental.

        Returns
        -------
        str

            A string representing periodic boundary condition along one or more axes, or
            Dirichlet or Neumann boundary condition. The string is empty if no boundary
            condition is defined.
        """
        return self._bc

    @bc.setter
    def bc(self, bc):
        if not isinstance(bc, str):
            raise TypeError("Value of bc must be a string.")
        bc = bc.lower()
        if bc not in {"neumann", "dirichlet", ""}:
            for char in bc:
                if char not in self.region.dims:
                    raise ValueError(f"Axis {char} is absent in {self.region.dims}.")
                elif bc.count(char) > 1:
                    raise ValueError(f"Axis {char} is present more than once.")

        self._bc = bc

    @property
    def cell(self):
        """The cell size of the mesh.

        Returns
        -------
        numpy.ndarray

            A numpy array representing discretisation size along respective axes.
        """
        return np.divide(self.region.edges, self.n).astype(float)

    @property
    def n(self):
        """Number of cells along each dimension of the mesh.

        Returns
        -------
        numpy.ndarray

            A numpy array representing number of discretisation cells along respective
            axes.
        """
        return self._n

    @property
    def region(self):
        """Region on which the mesh is defined.

        Returns
        -------
        discretisedfield.Region

            A region over which the regular mesh is defined.
        """
        return self._region

    @property
    def subregions(self):
        """Subregions of the mesh.

        When setting subregions all attributes of the individual regions (e.g. dims)
        apart from ``pmin`` and ``pmax`` will be overwritten with the values from
        ``mesh.region``.

        Returns
        -------
        dict

            A dictionary defining subregions in the mesh. The keys of the
            dictionary are the region names (``str``) as valid Python variable
            names, whereas the values are ``discretisedfield.Region`` objects.

        """
        return self._subregions

    @subregions.setter
    def subregions(self, subregions):
        if subregions is None:
            subregions = {}

        if not isinstance(subregions, dict):
            raise TypeError(
                "Subregions must be a dictionary relating the name of a subregion"
                " with its region."
            )

        if not all(isinstance(key, str) for key in subregions):
            raise TypeError("The keys of subregion dictionary must be strings.")

        # Check if subregions are aligned with the mesh
        for key, value in subregions.items():
            # Is the subregion in the mesh region?
            if value not in self.region:
                raise ValueError(f"Subregion {key} is not in the mesh region.")

            # Is the subregion an aggregate of discretisation cell?
            try:
                self.__class__(region=value, cell=self.cell)
            except ValueError:
                msg = (
                    f"Subregion {key} cannot be divided into "
                    f"discretisation cells of size {self.cell=}."
                )
                raise ValueError(msg) from None

            # Is the subregion aligned with the mesh?
            if not self.is_aligned(self.__class__(region=value, cell=self.cell)):
                raise ValueError(f"Subregion {key} is not aligned with the mesh.")
        if "default" in subregions:
            warnings.warn(
                "Subregion name ``default`` has a special meaning when "
                "initialising field values",
                stacklevel=2,
            )
        self._subregions = {
            name: df.Region(
                p1=sr.pmin,
                p2=sr.pmax,
                dims=self.region.dims,
                units=self.region.units,
                tolerance_factor=self.region.tolerance_factor,
            )
            for name, sr in subregions.items()
        }

    def __len__(self):
        """Number of discretisation cells in the mesh.

        It is computed by multiplying all elements of ``n``:

        .. math::

            n_\\text{total} = n_{x} n_{y} n_{z}.

        Returns
        -------
        int

            Total number of discretisation cells.

        Examples
        --------
        1. Getting the number of discretisation cells in a mesh.

        >>> import discretisedfield as df
        ...
        >>> p1 = (0, 5, 0)
        >>> p2 = (5, 15, 2)
        >>> cell = (1, 0.1, 1)
        >>> mesh = df.Mesh(region=df.Region(p1=p1, p2=p2), cell=cell)
        >>> mesh.n
        array([  5, 100,   2])
        >>> len(mesh)
        1000

        """
        return int(np.prod(self.n))

    @property
    def indices(self):
        """Generator yielding indices of all mesh cells.

        Yields
        ------
        tuple

            For three dimensions, mesh cell indices :math:`(i_{x}, i_{y}, i_{z})`.

        Examples
        --------
        1. Getting indices of all mesh cells.

        >>> import discretisedfield as df
        ...
        >>> p1 = (0, 0, 0)
        >>> p2 = (3, 2, 1)
        >>> cell = (1, 1, 1)
        >>> mesh = df.Mesh(p1=p1, p2=p2, cell=cell)
        >>> list(mesh.indices)
        [(0, 0, 0), (1, 0, 0), (2, 0, 0), (0, 1, 0), (1, 1, 0), (2, 1, 0)]

        .. seealso:: :py:func:`~discretisedfield.Mesh.__iter__`

        """
        for index in itertools.product(*map(range, reversed(self.n))):
            yield tuple(reversed(index))

    def __iter__(self):
        """Generator yielding coordinates of discretisation cells.

        The discretisation cell's coordinate corresponds to its center point.

        Yields
        ------
        numpy.ndarray

            For three dimensions, mesh cell's center point
            :math:`\\mathbf{p} = (p_{x}, p_{y}, p_{z})`.

        Examples
        --------
        1. Getting coordinates of all mesh cells.

        >>> import discretisedfield as df
        ...
        >>> p1 = (0, 0, 0)
        >>> p2 = (2, 2, 1)
        >>> cell = (1, 1, 1)
        >>> mesh = df.Mesh(region=df.Region(p1=p1, p2=p2), cell=cell)
        >>> list(mesh)
        [array([0.5, 0.5, 0.5]), array([1.5, 0.5, 0.5]), array([0.5, 1.5, 0.5]),...]

        .. seealso:: :py:func:`~discretisedfield.Mesh.indices`

        """
        yield from map(self.index2point, self.indices)

    @property
    def cells(self):
        """Midpoints of the cells of the mesh along the spatial directions.

        This method returns a named tuple containing numpy arrays with midpoints of the
        cells along the spatial directions. Individual directions can be accessed from
        the tuple.

        Returns
        -------
        collections.namedtuple

            Namedtuple with elements corresponding to geometrical directions, the cell
            midpoints along the directions as numpy arrays.

        Examples
        --------
        1. Getting midpoints along the ``x`` axis.

        >>> import discretisedfield as df
        ...
        >>> p1 = (0, 0, 0)
        >>> p2 = (10, 1, 1)
        >>> cell = (2, 1, 1)
        >>> mesh = df.Mesh(region=df.Region(p1=p1, p2=p2), cell=cell)
        ...
        >>> mesh.cells.x
        array([1., 3., 5., 7., 9.])

        """
        cells = collections.namedtuple("cells", self.region.dims)

        return cells(
            *(
                np.linspace(pmin + cell / 2, pmax - cell / 2, n)
                for pmin, pmax, cell, n in zip(
                    self.region.pmin, self.region.pmax, self.cell, self.n
                )
            )
        )

    @property
    def vertices(self):
        """Vertices of the cells of the mesh along the spatial directions.

        This method returns a named tuple containing numpy arrays with vertices of the
        cells along the spatial directions. Individual directions can be accessed from
        the tuple.

        Returns
        -------
        collections.namedtuple

            Namedtuple with elements corresponding to spatial directions, the cell
            vertices along the directions as numpy arrays.

        Examples
        --------
        1. Getting vertices along the ``x`` axis.

        >>> import discretisedfield as df
        ...
        >>> p1 = (0, 0, 0)
        >>> p2 = (10, 1, 1)
        >>> cell = (2, 1, 1)
        >>> mesh = df.Mesh(region=df.Region(p1=p1, p2=p2), cell=cell)
        ...
        >>> mesh.vertices.x
        array([ 0.,  2.,  4.,  6.,  8., 10.])

        """
        vertices = collections.namedtuple("vertices", self.region.dims)

        return vertices(
            *(
                np.linspace(pmin, pmax, n + 1)
                for pmin, pmax, n in zip(self.region.pmin, self.region.pmax, self.n)
            )
        )

    def __eq__(self, other):
        """Relational operator ``==``.

        Two meshes are considered to be equal if:

          1. Regions of both meshes are equal.

          2. Discretisation cell sizes are the same.

        Boundary conditions ``bc`` and ``subregions`` are not considered to be
        necessary conditions for determining equality.

        Parameters
        ----------
        other : discretisedfield.Mesh

            Second operand.

        Returns
        -------
        bool

            ``True`` if two meshes are equal and ``False`` otherwise.

        Examples
        --------
        1. Check if meshes are equal.

        >>> import discretisedfield as df
        ...
        >>> mesh1 = df.Mesh(p1=(0, 0, 0), p2=(5, 5, 5), cell=(1, 1, 1))
        >>> mesh2 = df.Mesh(p1=(0, 0, 0), p2=(5, 5, 5), cell=(1, 1, 1))
        >>> mesh3 = df.Mesh(p1=(1, 1, 1), p2=(5, 5, 5), cell=(2, 2, 2))
        >>> mesh1 == mesh2
        True
        >>> mesh1 != mesh2
        False
        >>> mesh1 == mesh3
        False
        >>> mesh1 != mesh3
        True

        """
        if not isinstance(other, self.__class__):
            return False
        return self.region == other.region and all(self.n == other.n)

    def allclose(self, other, rtol=None, atol=None):
        """Check if the mesh is close enough to the other based on a tolerance.

        This methods compares the two underlying regions using ``Region.allclose`` and
        the number of cells ``n`` of the two meshes. The value of relative tolerance
        (``rtol``) and absolute tolerance (``atol``) are passed on to
        ``Region.allclose`` for the comparison. If not provided default values of
        ``Region.allclose`` are used.

        Parameters
        ----------
        other : discretisedfield.Mesh

            The other mesh used for comparison.

        rtol : numbers.Real, optional

            Absolute tolerance. If ``None``, the default value is
            the smallest edge length of the region multipled by
            the ``region.tolerance_factor``.

        atol : numbers.Real, optional

            Relative tolerance. If ``None``, ``region.tolerance_factor`` is used.

        Returns
        -------
        bool

            ``True`` if other mesh is close enough, otherwise ``False``.

        Raises
        ------
        TypeError

            If the ``other`` argument is not of type ``discretisedfield.Mesh`` or if
            ``rtol`` and ``atol`` arguments are not of type ``numbers.Real``.

        ValueError

            If the dimensions of the mesh and the other mesh does not match.

        Example
        -------
        >>> p1 = (0, 0, 0)
        >>> p2 = (20e-9, 20e-9, 20e-9)
        >>> n = (10, 10, 10)
        >>> mesh1 = df.Mesh(p1=p1, p2=p2, n=n)
        ...
        >>> p1 = (0, 0, 0)
        >>> p2 = (20e-9 + 1.2e-12, 20e-9 + 1e-13, 20e-9 + 2e-12)
        >>> n = (10, 10, 10)
        >>> mesh2 = df.Mesh(p1=p1, p2=p2, n=n)
        ...
        >>> mesh1.allclose(mesh2, atol=1e-11)
        True
        >>> mesh1.allclose(mesh2, atol=1e-13)
        False

        """

        if not isinstance(other, df.Mesh):
            raise TypeError(
                f"Expected argument of type discretisedfield.Mesh but got {type(other)}"
            )

        if self.region.dims != other.region.dims:
            raise ValueError("The mesh dimensions do not match.")

        return self.region.allclose(
            other.region, rtol=rtol, atol=atol
        ) and np.array_equal(self.n, other.n)

    def __repr__(self):
        """Representation string.

        Internally `self._repr_html_()` is called and all html tags are removed
        from this string.

        Returns
        -------
        str

           Representation string.

        Example
        -------
        1. Getting representation string.

        >>> import discretisedfield as df
        ...
        >>> p1 = (0, 0, 0)
        >>> p2 = (2, 2, 1)
        >>> cell = (1, 1, 1)
        >>> bc = 'x'
        >>> mesh = df.Mesh(p1=p1, p2=p2, cell=cell, bc=bc)
        >>> mesh
        Mesh(Region(pmin=[0, 0, 0], pmax=[2, 2, 1], ...), n=[2, 2, 1], bc=x)

        """
        return html.strip_tags(self._repr_html_())

    def _repr_html_(self):
        """Show HTML-based representation in Jupyter notebook."""
        return html.get_template("mesh").render(mesh=self)

    def index2point(self, index, /):
        """Convert cell's index to its coordinate.

        Parameters
        ----------
        index : array_like

            For three dimensions, the cell's index :math:`(i_{x}, i_{y}, i_{z})`.

        Returns
        -------
        numpy.ndarray

            For three dimensions, the cell's coordinate
            :math:`\\mathbf{p} = (p_{x}, p_{y}, p_{z})`.

        Raises
        ------
        ValueError

            If ``index`` is out of range.

        Examples
        --------
        1. Converting cell's index to its center point coordinate.

        >>> import discretisedfield as df
        ...
        >>> p1 = (0, 0, 0)
        >>> p2 = (2, 2, 1)
        >>> cell = (1, 1, 1)
        >>> mesh = df.Mesh(p1=p1, p2=p2, cell=cell)
        >>> mesh.index2point((0, 0, 0))
        array([0.5, 0.5, 0.5])
        >>> mesh.index2point((0, 1, 0))
        array([0.5, 1.5, 0.5])

        .. seealso:: :py:func:`~discretisedfield.Mesh.point2index`

        """
        if isinstance(index, numbers.Integral):
            index = [index]
        elif isinstance(index, (np.ndarray, list, tuple)):
            if any(not isinstance(i, numbers.Integral) for i in index):
                raise TypeError(f"The elements of {index=} must be integer.")
        else:
            raise TypeError(
                f"The index is of the wrong type {type(index)=}. It must be an integer"
                " (1D) or a tuple/list/array of integers."
            )

        if len(index) != self.region.ndim:
            raise IndexError(
                f"Wrong dimensional index. {index=} but {self.region.ndim=}."
            )

        if np.logical_or(np.less(index, 0), np.greater_equal(index, self.n)).any():
            raise IndexError(f"Index {index=} out of range.")

        point = self.region.pmin + np.add(index, 0.5) * self.cell
        return point

    def point2index(self, point, /):
        """Convert point to the index of a cell which contains that point.

        This method uses half-open intervals for each cell,
        inclusive of the start point but exclusive of the endpoints.
        i.e. for each cell [).
        The exception to this is the very last cell contained in the region
        which has a closed interval i.e. [] and is inclusive of both the
        lower and upper bounds of the cell.

        Parameters
        ----------
        point : array_like

            For three dimensions, point :math:`\\mathbf{p} = (p_{x}, p_{y}, p_{z})`.

        Returns
        -------
        tuple

            For three dimensions, the cell's index :math:`(i_{x}, i_{y}, i_{z})`.

        Raises
        ------
        ValueError

            If ``point`` is outside the mesh.

        Examples
        --------
        1. Converting point to the cell's index.

        >>> import discretisedfield as df
        ...
        >>> p1 = (0, 0, 0)
        >>> p2 = (2, 2, 1)
        >>> cell = (1, 1, 1)
        >>> mesh = df.Mesh(region=df.Region(p1=p1, p2=p2), cell=cell)
        >>> mesh.point2index((0.2, 1.7, 0.3))
        (0, 1, 0)

        .. seealso:: :py:func:`~discretisedfield.Mesh.index2point`

        """
        if isinstance(point, (tuple, list, np.ndarray)):
            if any(not isinstance(i, numbers.Real) for i in point):
                raise TypeError(
                    f"The elements of point {point=} must be of type numbers.Real."
                )
        elif isinstance(point, numbers.Real):
            point = [point]
        else:
            raise TypeError(
                f"The point is of the wrong type {type(point)=}. It must be an integer"
                " (1D) or a tuple/list/array of integers."
            )

        if len(point) != self.region.ndim:
            raise ValueError(
                f"Wrong dimensional point. {point=} but {self.region.ndim=}."
            )

        if point not in self.region:
            raise ValueError(f"Point {point} is outside the region {self.region=}.")

        index = np.floor((point - self.region.pmin) / self.cell).astype(int)
        # If index is rounded to the out-of-range values.
        index = np.clip(index, 0, self.n - 1)

        # conversion to list is required to convert the datatypes to Python builtins
        return tuple(index.tolist())

    def region2slices(self, region):
        """Slices of indices that correspond to cells contained in the region.

        Parameters
        ----------
        region : df.Region

            Region to convert to slices.

        Returns
        -------
        tuple

            Tuple of slices of region indices.

        Examples
        --------
        1. Slices of a subregion
        >>> import discretisedfield as df
        ...
        >>> p1 = (0, 0, 0)
        >>> p2 = (10, 10, 1)
        >>> cell = (1, 1, 1)
        >>> subregions = {'sr': df.Region(p1=p1, p2=(10, 5, 1))}
        >>> mesh = df.Mesh(p1=p1, p2=p2, cell=cell, subregions=subregions)
        >>> mesh.region2slices(mesh.subregions['sr'])
        (slice(0, 10, None), slice(0, 5, None), slice(0, 1, None))
        """

        i1 = self.point2index(region.pmin + self.cell / 2)
        i2 = self.point2index(region.pmax - self.cell / 2)
        return tuple(slice(i1[i], i2[i] + 1) for i in range(self.region.ndim))

    def line(self, *, p1, p2, n):
        """Line generator.

        Given two points ``p1`` and ``p2`` line is defined and ``n`` points on
        that line are generated and yielded in ``n`` iterations:

        .. math::

           \\mathbf{r}_{i} = i\\frac{\\mathbf{p}_{2} - \\mathbf{p}_{1}}{n-1},
           \\text{for}\\, i = 0, ..., n-1

        Parameters
        ----------
        p1 / p2 : array_like

            For three dimensions, points between which the line is defined
            :math:`\\mathbf{p} = (p_{x}, p_{y}, p_{z})`.

        n : int

            Number of points on the line.

        Yields
        ------
        tuple

            :math:`\\mathbf{r}_{i}`

        Raises
        ------
        ValueError

            If ``p1`` or ``p2`` is outside the mesh region.

        Examples
        --------
        1. Creating line generator.

        >>> import discretisedfield as df
        ...
        >>> p1 = (0, 0, 0)
        >>> p2 = (2, 2, 2)
        >>> cell = (1, 1, 1)
        >>> mesh = df.Mesh(p1=p1, p2=p2, cell=cell)
        ...
        >>> line = mesh.line(p1=(0, 0, 0), p2=(2, 0, 0), n=2)
        >>> list(line)
        [(0.0, 0.0, 0.0), (2.0, 0.0, 0.0)]

        .. seealso:: :py:func:`~discretisedfield.Region.plane`

        """
        if p1 not in self.region or p2 not in self.region:
            msg = f"Point {p1=} or point {p2=} is outside the mesh region."
            raise ValueError(msg)

        dl = np.subtract(p2, p1) / (n - 1)
        for i in range(n):
            yield dfu.array2tuple(np.add(p1, i * dl))

    def sel(self, *args, **kwargs):
        """Select a part of the mesh.

        If one of the axis from ``region.dims`` is passed as a string, a mesh of a
        reduced dimension along the axis and perpendicular to it is extracted,
        intersecting the axis at its center. Alternatively, if a keyword (representing
        the axis) argument is passed with a real number value (e.g. ``x=1e-9``), a mesh
        of reduced dimensions intersects the axis at a point 'nearest' to the provided
        value is returned. If instead a tuple, list or a numpy array of length 2 is
        passed as a value containing two real numbers (e.g. ``x=(1e-9, 7e-9)``), a sub
        mesh is returned with minimum and maximum points along the selected axis,
        'nearest' to the minimum and maximum of the selected values, respectively.

        Parameters
        ----------
        args :

            A string corresponding to the selection axis that belongs to
            ``region.dims``.

        kwarg :

            A key corresponding to the selection axis that belongs to ``region.dims``.
            The values are either a ``numbers.Real`` or list, tuple, numpy array of
            length 2 containing ``numbers.Real`` which represents a point or a range of
            points to be selected from the mesh.

        Returns
        -------
        discretisedfield.Mesh

            An extracted mesh.

        Examples
        --------
        1. Extracting the mesh at a specific point (``y=1``).

        >>> import discretisedfield as df
        ...
        >>> p1 = (0, 0, 0)
        >>> p2 = (5, 5, 5)
        >>> cell = (1, 1, 1)
        >>> mesh = df.Mesh(p1=p1, p2=p2, cell=cell)
        >>> mesh.region.ndim
        3
        >>> mesh.region.dims
        ('x', 'y', 'z')
        >>> plane_mesh = mesh.sel(y=1)
        >>> plane_mesh.region.ndim
        2
        >>> plane_mesh.region.dims
        ('x', 'z')

        2. Extracting the xy-plane mesh at the mesh region center.

        >>> plane_mesh = mesh.sel('z')
        >>> plane_mesh.region.ndim
        2
        >>> plane_mesh.region.dims
        ('x', 'y')

        3. Specifying a range of points along axis ``x`` to be selected from mesh.

        >>> selected_mesh = mesh.sel(x=(2, 4))
        >>> selected_mesh.region.ndim
        3
        >>> selected_mesh.region.dims
        ('x', 'y', 'z')

        """
        dim, dim_index, selection, _ = self._sel_convert_input(*args, **kwargs)

        sub_region = dict()
        if isinstance(selection, numbers.Real):
            idxs = [i for i in range(self.region.ndim) if i != dim_index]
            p_1 = list()
            p_2 = list()
            cell = list()
            dims = list()
            units = list()
            for j in idxs:
                p_1.append(self.region.pmin[j])
                p_2.append(self.region.pmax[j])
                cell.append(self.cell[j])
                dims.append(self.region.dims[j])
                units.append(self.region.units[j])

            if self.subregions is not None:
                for key, subreg in self.subregions.items():
                    if (
                        selection > subreg.pmax[dim_index]
                        or selection < subreg.pmin[dim_index]
                    ):
                        continue
                    else:
                        sub_p_1 = list()
                        sub_p_2 = list()
                        for j in idxs:
                            sub_p_1.append(subreg.pmin[j])
                            sub_p_2.append(subreg.pmax[j])
                        sub_region[key] = df.Region(
                            p1=sub_p_1,
                            p2=sub_p_2,
                        )
        else:
            step = self.cell[dim_index] / 2
            p_1 = self.region.pmin.copy().astype(
                max(self.region.pmin.dtype, type(step))
            )
            p_2 = self.region.pmax.copy().astype(
                max(self.region.pmax.dtype, type(step))
            )
            min_val = selection[0] - step
            max_val = selection[1] + step
            p_1[dim_index] = min_val
            p_2[dim_index] = max_val
            cell = self.cell
            dims = self.region.dims
            units = self.region.units
            if self.subregions is not None:
                for key, subreg in self.subregions.items():
                    sub_reg_p_min = subreg.pmin[dim_index]
                    sub_reg_p_max = subreg.pmax[dim_index]
                    if sub_reg_p_min >= max_val or min_val >= sub_reg_p_max:
                        continue
                    else:
                        sub_p_1 = subreg.pmin.copy().astype(
                            max(subreg.pmin.dtype, type(min_val))
                        )
                        sub_p_2 = subreg.pmax.copy().astype(
                            max(subreg.pmax.dtype, type(max_val))
                        )
                        sub_p_1[dim_index] = max(min_val, sub_reg_p_min)
                        sub_p_2[dim_index] = min(max_val, sub_reg_p_max)
                        sub_region[key] = df.Region(
                            p1=sub_p_1,
                            p2=sub_p_2,
                        )

        return self.__class__(
            region=df.Region(
                p1=p_1,
                p2=p_2,
                dims=dims,
                units=units,
                tolerance_factor=self.region.tolerance_factor,
            ),
            cell=cell,
            subregions=sub_region,
        )

    def _sel_convert_input(self, *args, **kwargs):
        """Convert input of 'sel' into (dim, dim_index, selection, selection_index).

        The value(s) in selection are cell centre points. If a range is selected a list
        is returned for selection and a slice for selection_index. The upper boundary
        for selection_index is increased by 1 to "make the slice inclusive".

        """
        if len(args) > 1 or len(kwargs) > 1:
            raise ValueError("Select method only accepts one dimension at a time.")

        if args and not kwargs:
            dim = args[0]
            range_ = None
        elif not args and kwargs:
            dim, range_ = list(kwargs.items())[0]
        else:
            raise ValueError(
                "Either one positional argument or a keyword argument can be passed."
            )

        dim_index = self.region._dim2index(dim)

        # Check input arguments
        if range_ is not None:
            if isinstance(range_, numbers.Real):
                if (
                    range_ < self.region.pmin[dim_index]
                    or range_ > self.region.pmax[dim_index]
                ):
                    raise ValueError(
                        f"Selected value {range_} is outside the mesh region."
                    )
                test_point = self.region.pmin.copy().astype(
                    max(self.region.pmin.dtype, type(range_))
                )
                test_point[dim_index] = range_
                selection = self.index2point(self.point2index(test_point))[dim_index]
                selection_index = self.point2index(test_point)[dim_index]
            elif isinstance(range_, (tuple, list, np.ndarray)):
                if len(range_) != 2:
                    raise ValueError(
                        "The points along the selected dimension must have two"
                        " real numbers."
                    )
                elif not all(isinstance(point, numbers.Real) for point in range_):
                    raise TypeError(
                        f"The elements of {type(range_)} passed as the value of keyword"
                        " argument must be real numbers."
                    )
                selection = list()
                selection_index = list()
                for point in sorted(range_):
                    if (
                        point < self.region.pmin[dim_index]
                        or point > self.region.pmax[dim_index]
                    ):
                        raise ValueError(
                            f"Selected value {point} is outside the mesh region"
                            f" {self.region}."
                        )
                    test_point = self.region.pmin.copy().astype(
                        max(self.region.pmin.dtype, type(point))
                    )
                    test_point[dim_index] = point
                    selection.append(
                        self.index2point(self.point2index(test_point))[dim_index]
                    )
                    selection_index.append(self.point2index(test_point)[dim_index])
                # increase upper boundary to "make slice inclusive"
                selection_index = slice(selection_index[0], selection_index[1] + 1)
            else:
                raise TypeError(
                    "The value passed to selected dimension must be a tuple, list,"
                    " array or real number."
                )
        else:
            selection = self.index2point(self.point2index(self.region.center))[
                dim_index
            ]
            selection_index = self.point2index(self.region.center)[dim_index]

        return dim, dim_index, selection, selection_index

    def __or__(self, other):
        # """Depricated method to check if meshes are aligned: use ``is_aligned``"""

        warnings.warn(
            "Bitwise OR (|) operator is deprecated; please use is_aligned",
            DeprecationWarning,
            stacklevel=2,
        )
        return self.is_aligned(other)

    def is_aligned(self, other, tolerance=1e-12):
        """Check if meshes are aligned.

        Two meshes are considered to be aligned if and only if:

            1. They have same discretisation cell size.

            2. They have common cell coordinates.

        for a given tolerance value.

        Parameters
        ----------
        other : discretisedfield.Mesh

            Other mesh to be checked if it is aligned with self.

        tolerance : int, float, optional

            The allowed extent of misalignment for discretisation cells and cell
            coordinates.

        Returns
        -------
        bool

            ``True`` if meshes are aligned, ``False`` otherwise.

        Raises
        ------
        TypeError

            If ``other`` argument is not of type ``discretisedfield.Mesh`` or if
            ``tolerance`` argument is not of type ``float`` or ``int``.

        Examples
        --------
        1. Check if two meshes are aligned.

        >>> import discretisedfield as df
        ...
        >>> p1 = (-50e-9, -25e-9, 0)
        >>> p2 = (50e-9, 25e-9, 5e-9)
        >>> cell = (5e-9, 5e-9, 5e-9)
        >>> region1 = df.Region(p1=p1, p2=p2)
        >>> mesh1 = df.Mesh(region=region1, cell=cell)
        ...
        >>> p1 = (-45e-9, -20e-9, 0)
        >>> p2 = (10e-9, 20e-9, 5e-9)
        >>> cell = (5e-9, 5e-9, 5e-9)
        >>> region2 = df.Region(p1=p1, p2=p2)
        >>> mesh2 = df.Mesh(region=region2, cell=cell)
        ...
        >>> p1 = (-42e-9, -20e-9, 0)
        >>> p2 = (13e-9, 20e-9, 5e-9)
        >>> cell = (5e-9, 5e-9, 5e-9)
        >>> region3 = df.Region(p1=p1, p2=p2)
        >>> mesh3 = df.Mesh(region=region3, cell=cell)
        ...
        >>> mesh1.is_aligned(mesh2)
        True
        >>> mesh1.is_aligned(mesh3)
        False
        >>> mesh1.is_aligned(mesh1)
        True
        >>> p_1 = (0, 0, 0)
        >>> p_2 = (0 + 1e-13, 0, 0)
        >>> p_3 = (0, 0, 0 + 1e-10)
        >>> p_4 = (20e-9, 20e-9, 20e-9)
        >>> p_5 = (20e-9 + 1e-13, 20e-9, 20e-9)
        >>> p_6 = (20e-9, 20e-9, 20e-9 + 1e-10)
        >>> cell = (5e-9, 5e-9, 5e-9)
        >>> mesh4 = df.Mesh(p1=p_1, p2=p_4, cell=cell)
        >>> mesh5 = df.Mesh(p1=p_2, p2=p_5, cell=cell)
        >>> mesh6 = df.Mesh(p1=p_3, p2=p_6, cell=cell)
        ...
        >>> mesh4.is_aligned(mesh5, 1e-12)
        True
        >>> mesh4.is_aligned(mesh6, 1e-11)
        False

        """
        if not isinstance(other, df.Mesh):
            raise TypeError(
                f"Expected argument of type discretisedfield.Mesh but got {type(other)}"
            )
        if not isinstance(tolerance, numbers.Real):
            raise TypeError(
                "Expected tolerance to be either a float or an integer but got"
                f" {type(tolerance)}"
            )

        if not np.allclose(self.cell, other.cell, atol=tolerance):
            return False

        tol = tolerance
        for i in ["pmin", "pmax"]:
            diff = np.subtract(getattr(self.region, i), getattr(other.region, i))
            rem = np.remainder(abs(diff), self.cell)
            if np.logical_and(
                np.greater(rem, tol), np.less(rem, np.subtract(self.cell, tol))
            ).any():
                return False

        return True

    def __getitem__(self, item):
        """Extracts the mesh of a subregion.

        If subregions were defined by passing ``subregions`` dictionary when
        the mesh was created, this method returns a mesh defined on a subregion
        with key ``item``. Alternatively, a ``discretisedfield.Region``
        object can be passed and a minimum-sized mesh containing it will be
        returned. The resulting mesh has the same discretisation cell as the
        original mesh. This method uses closed intervals, inclusive of endpoints
        i.e. [], for extracting the new mesh.

        Parameters
        ----------
        item : str, discretisedfield.Region

            The key of a subregion in ``subregions`` dictionary or a region
            object.

        Returns
        -------
        disretisedfield.Mesh

            Mesh of a subregion.

        Example
        -------
        1. Extract subregion mesh by passing a subregion key.

        >>> import discretisedfield as df
        ...
        >>> p1 = (0, 0, 0)
        >>> p2 = (100, 100, 100)
        >>> cell = (10, 10, 10)
        >>> subregions = {'r1': df.Region(p1=(0, 0, 0), p2=(50, 100, 100)),
        ...               'r2': df.Region(p1=(50, 0, 0), p2=(100, 100, 100))}
        >>> mesh = df.Mesh(p1=p1, p2=p2, cell=cell, subregions=subregions)
        ...
        >>> len(mesh)  # number of discretisation cells
        1000
        >>> mesh.region.pmin
        array([0, 0, 0])
        >>> mesh.region.pmax
        array([100, 100, 100])
        >>> submesh = mesh['r1']
        >>> len(submesh)
        500
        >>> submesh.region.pmin
        array([0, 0, 0])
        >>> submesh.region.pmax
        array([ 50, 100, 100])

        2. Extracting a submesh on a "newly-defined" region.

        >>> p1 = (-50e-9, -25e-9, 0)
        >>> p2 = (50e-9, 25e-9, 5e-9)
        >>> cell = (5e-9, 5e-9, 5e-9)
        >>> region = df.Region(p1=p1, p2=p2)
        >>> mesh = df.Mesh(region=region, cell=cell)
        ...
        >>> subregion = df.Region(p1=(0, 1e-9, 0), p2=(10e-9, 14e-9, 5e-9))
        >>> submesh = mesh[subregion]
        >>> submesh.cell
        array([5.e-09, 5.e-09, 5.e-09])
        >>> submesh.n
        array([2, 3, 1])

        """
        if isinstance(item, str):
            return self.__class__(region=self.subregions[item], cell=self.cell)

        if item not in self.region:
            msg = f"Subregion '{item}' is outside the mesh region '{self.region}'."
            raise ValueError(msg)

        hc = np.divide(self.cell, 2)  # half-cell
        p1 = np.subtract(self.index2point(self.point2index(item.pmin)), hc)

        # Calculate p2 index manually as point2index will give [) and we want [].
        p2_idx = (np.ceil((item.pmax - self.region.pmin) / self.cell) - 1).astype(int)
        p2 = np.add(self.index2point(p2_idx), hc)

        return self.__class__(
            region=df.Region(
                p1=p1,
                p2=p2,
                dims=self.region.dims,
                units=self.region.units,
                tolerance_factor=self.region.tolerance_factor,
            ),
            cell=self.cell,
        )

    def pad(self, pad_width):
        """Mesh padding.

        This method extends the mesh by adding (padding) discretisation cells
        in chosen direction(s). The way in which the mesh is going to be padded
        is defined by passing ``pad_width`` dictionary. The keys of the
        dictionary are the directions (axes), e.g. ``'x'``, ``'y'``, or
        ``'z'``, whereas the values are the tuples of length 2. The first
        integer in the tuple is the number of cells added in the negative
        direction, and the second integer is the number of cells added in the
        positive direction.

        Parameters
        ----------
        pad_width : dict

            The keys of the dictionary are the directions (axes), e.g. ``'x'``,
            ``'y'``, or ``'z'``, whereas the values are the tuples of length 2.
            The first integer in the tuple is the number of cells added in the
            negative direction, and the second integer is the number of cells
            added in the positive direction.

        Returns
        -------
        discretisedfield.Mesh

            Padded (extended) mesh.

        Examples
        --------
        1. Padding a mesh in the x and y directions by 1 cell.

        >>> import discretisedfield as df
        ...
        >>> p1 = (0, 0, 0)
        >>> p2 = (100, 100, 100)
        >>> cell = (10, 10, 10)
        >>> mesh = df.Mesh(p1=p1, p2=p2, cell=cell)
        ...
        >>> mesh.region.edges
        array([100, 100, 100])
        >>> padded_mesh = mesh.pad({'x': (1, 1), 'y': (1, 1), 'z': (0, 1)})
        >>> padded_mesh.region.edges
        array([120., 120., 110.])
        >>> padded_mesh.n
        array([12, 12, 11])

        """
        pmin = self.region.pmin.copy().astype(float)
        pmax = self.region.pmax.copy().astype(float)
        # Convert to np.ndarray to allow operations on them.
        for direction in pad_width:
            axis = self.region._dim2index(direction)
            pmin[axis] -= pad_width[direction][0] * self.cell[axis]
            pmax[axis] += pad_width[direction][1] * self.cell[axis]

        return self.__class__(
            region=df.Region(
                p1=pmin,
                p2=pmax,
                dims=self.region.dims,
                units=self.region.units,
                tolerance_factor=self.region.tolerance_factor,
            ),
            cell=self.cell,
            bc=self.bc,
        )

    def __getattr__(self, attr):
        """Extracting the discretisation in a particular direction.

        For example in a three dimensional geometry with spatial dimensions ``'x'``,
        ``'y'``, and ``'z'``, if ``'dx'``, ``'dy'``, or ``'dz'`` is accessed, the
        discretisation cell size in that direction is returned.

        Parameters
        ----------
        attr : str

            Discretisation direction (eg. ``'dx'``, ``'dy'``, or ``'dz'``)

        Returns
        -------
        numbers.Real

            Discretisation in a particular direction.

        Examples
        --------
        1. Discretisation in the different directions.

        >>> import discretisedfield as df
        ...
        >>> p1 = (0, 0, 0)
        >>> p2 = (100, 100, 100)
        >>> cell = (10, 25, 50)
        >>> mesh = df.Mesh(p1=p1, p2=p2, cell=cell)
        ...
        >>> mesh.dx
        10.0
        >>> mesh.dy
        25.0
        >>> mesh.dz
        50.0

        """
        if attr in self._removed_attributes:
            raise AttributeError(
                f"'{attr}' has been removed; use '{self._removed_attributes[attr]}'"
                " instead."
            )
        if len(attr) > 1 and attr[0] == "d":
            with contextlib.suppress(ValueError):
                return self.cell.tolist()[self.region._dim2index(attr[1:])]
        raise AttributeError(f"Object has no attribute {attr}.")

    def __dir__(self):
        """Extension of the ``dir(self)`` list.

        For example in a three dimensional geometry with spatial dimensions ``'x'``,
        ``'y'``, and ``'z'``, it adds ``'dx'``, ``'dy'``, and ``'dz'``.

        Returns
        -------
        list

            Avalilable attributes.

        """
        return dir(self.__class__) + [f"d{i}" for i in self.region.dims]

    @property
    def dV(self):
        """Discretisation cell volume.

        Returns
        -------
        float

            Discretisation cell volume.

        Examples
        --------
        1. Discretisation cell volume.

        >>> import discretisedfield as df
        ...
        >>> p1 = (0, 0, 0)
        >>> p2 = (100, 100, 100)
        >>> cell = (1, 2, 4)
        >>> mesh = df.Mesh(p1=p1, p2=p2, cell=cell)
        ...
        >>> mesh.dV
        8.0

        """
        return np.prod(self.cell).item()

    def scale(self, factor, reference_point=None, inplace=False):
        """Scale the underlying region and all subregions.

        This method scales mesh.region and all subregions by a ``factor`` with respect
        to a ``reference_point``. If ``factor`` is a number the same scaling is applied
        along all dimensions. If ``factor`` is array-like its length must match
        ``region.ndim`` and different factors are applied along the different directions
        (based on their order). If ``reference_point`` is ``None``,
        ``mesh.region.center`` is used as the reference point. A new object is created
        unless ``inplace=True`` is specified.

        Scaling the mesh also scales ``mesh.cell``. The number of cells ``mesh.n`` stays
        constant.

        Parameters
        ----------
        factor : numbers.Real or array-like of numbers.Real

            Factor to scale the mesh.

        reference_point : array_like, optional

            The position of the reference point is fixed when scaling the mesh. If not
            specified the mesh is scaled about its ``mesh.region.center``.

        inplace : bool, optional

            If True, the mesh object is modified in-place. Defaults to False.

        Returns
        -------
        discretisedfield.Mesh

            Resulting mesh.

        Raises
        ------
        ValueError, TypeError

            If the operator cannot be applied.

        Example
        -------
        1. Scale a mesh without subregions.

        >>> import discretisedfield as df
        >>> p1 = (0, 0, 0)
        >>> p2 = (10, 10, 10)
        >>> mesh = df.Mesh(p1=p1, p2=p2, cell=(1, 1, 1))
        >>> res = mesh.scale(2)
        >>> res.region.pmin
        array([-5., -5., -5.])
        >>> res.region.pmax
        array([15., 15., 15.])

        2. Scale a mesh with subregions.

        >>> import discretisedfield as df
        >>> p1 = (0, 0, 0)
        >>> p2 = (10, 10, 10)
        >>> sr = {'sub_reg': df.Region(p1=p1, p2=(5, 5, 5))}
        >>> mesh = df.Mesh(p1=p1, p2=p2, cell=(1, 1, 1), subregions=sr)
        >>> res = mesh.scale(2)
        >>> res.region.pmin
        array([-5., -5., -5.])
        >>> res.region.pmax
        array([15., 15., 15.])
        >>> res.subregions['sub_reg'].pmin
        array([-5., -5., -5.])
        >>> res.subregions['sub_reg'].pmax
        array([5., 5., 5.])

        3. Scale a mesh with subregions in place.

        >>> import discretisedfield as df
        >>> p1 = (0, 0, 0)
        >>> p2 = (10, 10, 10)
        >>> sr = {'sub_reg': df.Region(p1=p1, p2=(5, 5, 5))}
        >>> mesh = df.Mesh(p1=p1, p2=p2, cell=(1, 1, 1), subregions=sr)
        >>> mesh.scale((2, 2, 5), inplace=True)
        Mesh(...)
        >>> mesh.region.pmin
        array([ -5.,  -5., -20.])
        >>> mesh.region.pmax
        array([15., 15., 30.])
        >>> mesh.subregions['sub_reg'].pmin
        array([ -5.,  -5., -20.])
        >>> mesh.subregions['sub_reg'].pmax
        array([5., 5., 5.])

        4. Scale with respect to the origin

        >>> import discretisedfield as df
        >>> p1 = (0, 0, 0)
        >>> p2 = (10, 10, 10)
        >>> mesh = df.Mesh(p1=p1, p2=p2, cell=(1, 1, 1))
        >>> res = mesh.scale(2, reference_point=p1)
        >>> res.region.pmin
        array([0, 0, 0])
        >>> res.region.pmax
        array([20, 20, 20])

        See also
        --------
        ~discretisedfield.Region.scale

        """
        sr_ref = self.region.center if reference_point is None else reference_point
        if inplace:
            # refuse before anything is modified: the copying form raises for a
            # subregion that would lose its extent
            for sr in self.subregions.values():
                sr.scale(factor, reference_point=sr_ref)
            self.region.scale(factor, inplace=True, reference_point=reference_point)
            for sr in self.subregions.values():
                sr.scale(factor, inplace=True, reference_point=sr_ref)
            return self
        else:
            region = self.region.scale(factor, reference_point=reference_point)
            subregions = {
                key: sr.scale(factor, reference_point=sr_ref)
                for key, sr in self.subregions.items()
            }
            return self.__class__(
                region=region, n=self.n, bc=self.bc, subregions=subregions
            )

    def translate(self, vector, inplace=False):
        """Translate the underlying region and all subregions.

        This method translates mesh.region and all subregions by adding ``vector`` to
        ``pmin`` and ``pmax``. The ``vector`` must have ``Region.ndim`` elements. A new
        object is created unless ``inplace=True`` is specified.

        Parameters
        ----------
        vector : array-like of numbers.Number

            Vector to translate the underlying region.

        inplace : bool, optional

            If True, the Region objects are modified in-place. Defaults to False.

        Returns
        -------
        discretisedfield.Mesh

            Resulting mesh.

        Raises
        ------
        ValueError, TypeError

            If the operator cannot be applied.

        Examples
        --------
        1. Translate a mesh without subregions.

        >>> import discretisedfield as df
        >>> p1 = (0, 0, 0)
        >>> p2 = (10, 10, 10)
        >>> mesh = df.Mesh(p1=p1, p2=p2, cell=(1, 1, 1))
        >>> res = mesh.translate((2, -2, 5))
        >>> res.region.pmin
        array([ 2, -2,  5])
        >>> res.region.pmax
        array([12,  8, 15])

        2. Translate a mesh with subregions.

        >>> import discretisedfield as df
        >>> p1 = (0, 0, 0)
        >>> p2 = (10, 10, 10)
        >>> sr = {'sub_reg': df.Region(p1=p1, p2=(5, 5, 5))}
        >>> mesh = df.Mesh(p1=p1, p2=p2, cell=(1, 1, 1), subregions=sr)
        >>> res = mesh.translate((2, -2, 5))
        >>> res.region.pmin
        array([ 2, -2,  5])
        >>> res.region.pmax
        array([12,  8, 15])
        >>> res.subregions['sub_reg'].pmin
        array([ 2, -2,  5])
        >>> res.subregions['sub_reg'].pmax
        array([ 7,  3, 10])

        3. Translate a mesh with subregions in place.

        >>> import discretisedfield as df
        >>> p1 = (0, 0, 0)
        >>> p2 = (10, 10, 10)
        >>> sr = {'sub_reg': df.Region(p1=p1, p2=(5, 5, 5))}
        >>> mesh = df.Mesh(p1=p1, p2=p2, cell=(1, 1, 1), subregions=sr)
        >>> mesh.translate((2, -2, 5), inplace=True)
        Mesh(...)
        >>> mesh.region.pmin
        array([ 2, -2,  5])
        >>> mesh.region.pmax
        array([12,  8, 15])
        >>> mesh.subregions['sub_reg'].pmin
        array([ 2, -2,  5])
        >>> mesh.subregions['sub_reg'].pmax
        array([ 7,  3, 10])

        See also
        --------
        ~discretisedfield.Region.translate

        """
        if inplace:
            # refuse before anything is modified: the copying form raises for a
            # subregion that would lose its extent
            for sr in self.subregions.values():
                sr.translate(vector)
            self.region.translate(vector, inplace=True)
            for sr in self.subregions.values():
                sr.translate(vector, inplace=True)
            return self
        else:
            region = self.region.translate(vector)
            subregions = {
                key: sr.translate(vector) for key, sr in self.subregions.items()
            }
            return self.__class__(
                region=region, n=self.n, bc=self.bc, subregions=subregions
            )

    def rotate90(self, ax1, ax2, k=1, reference_point=None, inplace=False):
        """Rotate mesh by 90°.

        Rotate the mesh ``k`` times by 90 degrees in the plane defined by ``ax1`` and
        ``ax2``. The rotation direction is from ``ax1`` to ``ax2``, the two must be
        different.

        The rotate method does not rotate the string defining periodic boundary
        conditions, e.g. if a system has periodic boundary conditions in x and is
        rotated in the xy plane the new system will still have periodic boundary
        conditions in the new x direction, NOT in the new y direction. It is the
        user's task to update the ``bc`` string after rotation if required.

        Parameters
        ----------
        ax1 : str

            Name of the first dimension.

        ax2 : str

            Name of the second dimension.

        k : int, optional

            Number of 90° rotations, defaults to 1.

        reference_point : array_like, optional

            Point around which the mesh is rotated. If not provided the mesh.region's
            centre point is used.

        inplace : bool, optional

            If ``True``, the rotation is applied in-place. Defaults to ``False``.

        Returns
        -------
        discretisedfield.Mesh

            The rotated mesh object. Either a new object or a reference to the
            existing mesh for ``inplace=True``.

        Examples
        --------

        >>> import discretisedfield as df
        >>> import numpy as np
        >>> p1 = (0, 0, 0)
        >>> p2 = (10, 8, 6)
        >>> mesh = df.Mesh(p1=p1, p2=p2, n=(10, 4, 6))
        >>> rotated = mesh.rotate90('x', 'y')
        >>> rotated.region.pmin
        array([ 1., -1.,  0.])
        >>> rotated.region.pmax
        array([9., 9., 6.])
        >>> rotated.n
        array([ 4, 10,  6])

        See also
        --------
        :py:func:`~discretisedfield.Region.rotate90`
        :py:func:`~discretisedfield.Field.rotate90`

        """
        if reference_point is None:
            reference_point = self.region.centre

        if inplace:
            # refuse before anything is modified: the copying form raises for a
            # subregion that would lose its extent
            for subregion in self.subregions.values():
                subregion.rotate90(ax1=ax1, ax2=ax2, k=k, reference_point=reference_point)

        # all checks will be performed by region.rotate90
        region = self.region.rotate90(
            ax1=ax1, ax2=ax2, k=k, reference_point=reference_point, inplace=inplace
        )

        n = list(self.n)
        if k % 2 == 1:
            idx1 = self.region._dim2index(ax1)
            idx2 = self.region._dim2index(ax2)
            n[idx1], n[idx2] = n[idx2], n[idx1]

        subregions = {
            name: subregion.rotate90(
                ax1=ax1, ax2=ax2, k=k, reference_point=reference_point, inplace=inplace
            )
            for name, subregion in self.subregions.items()
        }

        if inplace:
            self._n = np.array(n, dtype=int)
            return self
        else:
            return self.__class__(region=region, n=n, bc=self.bc, subregions=subregions)

    @property
    def mpl(self):
        """``matplotlib`` plot.

        If ``ax`` is not passed, ``matplotlib.axes.Axes`` object is created
        automatically and the size of a figure can be specified using
        ``figsize``. The color of lines depicting the region and the
        discretisation cell can be specified using ``color`` length-2 tuple,
        where the first element is the colour of the region and the second
        element is the colour of the discretisation cell. The plot is saved in
        PDF-format if ``filename`` is passed.

        It is often the case that the object size is either small (e.g. on a
        nanoscale) or very large (e.g. in units of kilometers). Accordingly,
        ``multiplier`` can be passed as :math:`10^{n}`, where :math:`n` is a
        multiple of 3 (..., -6, -3, 0, 3, 6,...). According to that value, the
        axes will be scaled and appropriate units shown. For instance, if
        ``multiplier=1e-9`` is passed, all axes will be divided by
        :math:`1\\,\\text{nm}` and :math:`\\text{nm}` units will be used as
        axis labels. If ``multiplier`` is not passed, the best one is
        calculated internally.

        This method is based on ``matplotlib.pyplot.plot``, so any keyword
        arguments accepted by it can be passed (for instance, ``linewidth``,
        ``linestyle``, etc.).

        Parameters
        ----------
        ax : matplotlib.axes.Axes, optional

            Axes to which the plot is added. Defaults to ``None`` - axes are
            created internally.

        figsize : (2,) tuple, optional

            The size of a created figure if ``ax`` is not passed. Defaults to
            ``None``.

        color : (2,) array_like

            A valid ``matplotlib`` color for lines depicting the region.
            Defaults to the default color palette.

        multiplier : numbers.Real, optional

            Axes multiplier. Defaults to ``None``.

        box_aspect : str, array_like (3), optional

            Set the aspect-ratio of the plot. If set to `'auto'` the aspect
            ratio is determined from the edge lengths of the region on which
            the mesh is defined. To set different aspect ratios a tuple can be
            passed. Defaults to ``'auto'``.

        filename : str, optional

            If filename is passed, the plot is saved. Defaults to ``None``.

        Examples
        --------
        1. Visualising the mesh using ``matplotlib``.

        >>> import discretisedfield as df
        ...
        >>> p1 = (-50e-9, -50e-9, 0)
        >>> p2 = (50e-9, 50e-9, 10e-9)
        >>> region = df.Region(p1=p1, p2=p2)
        >>> mesh = df.Mesh(region=region, n=(50, 50, 5))
        ...
        >>> mesh.mpl()

        .. seealso:: :py:func:`~discretisedfield.Mesh.k3d`

        """
        return dfp.MplMesh(self)

    @property
    def k3d(self):
        """``k3d`` plot.

        If ``plot`` is not passed, ``k3d.Plot`` object is created
        automatically. The color of the region and the discretisation cell can
        be specified using ``color`` length-2 tuple, where the first element is
        the colour of the region and the second element is the colour of the
        discretisation cell.

        It is often the case that the object size is either small (e.g. on a
        nanoscale) or very large (e.g. in units of kilometers). Accordingly,
        ``multiplier`` can be passed as :math:`10^{n}`, where :math:`n` is a
        multiple of 3 (..., -6, -3, 0, 3, 6,...). According to that value, the
        axes will be scaled and appropriate units shown. For instance, if
        ``multiplier=1e-9`` is passed, all axes will be divided by
        :math:`1\\,\\text{nm}` and :math:`\\text{nm}` units will be used as
        axis labels. If ``multiplier`` is not passed, the best one is
        calculated internally.

        This method is based on ``k3d.voxels``, so any keyword arguments
        accepted by it can be passed (e.g. ``wireframe``).

        Parameters
        ----------
        plot : k3d.Plot, optional

            Plot to which the plot is added. Defaults to ``None`` - plot is
            created internally.

        color : (2,) array_like

            Colour of the region and the discretisation cell. Defaults to the
            default color palette.

        multiplier : numbers.Real, optional

            Axes multiplier. Defaults to ``None``.

        Examples
        --------
        1. Visualising the mesh using ``k3d``.

        >>> p1 = (0, 0, 0)
        >>> p2 = (100, 100, 100)
        >>> n = (10, 10, 10)
        >>> mesh = df.Mesh(p1=p1, p2=p2, n=n)
        ...
        >>> mesh.k3d()
        Plot(...)

        .. seealso:: :py:func:`~discretisedfield.Mesh.mpl`

        """
        return dfp.K3dMesh(self)

    @property
    def pyvista(self):
        r"""``pyvista`` plot."""
        return dfp.PyVistaMesh(self)

    def slider(self, axis, /, *, multiplier=None, description=None, **kwargs):
        """Axis slider.

        For ``axis``, the name of a spatial dimension is passed. Based on that
        value, ``ipywidgets.SelectionSlider`` is returned. Axis multiplier can
        be changed via ``multiplier``.

        This method is based on ``ipywidgets.SelectionSlider``, so any keyword
        argument accepted by it can be passed.

        Parameters
        ----------
        axis : str

            Axis for which the slider is returned (For eg., ``'x'``, ``'y'``, or
            ``'z'``).

        multiplier : numbers.Real, optional

            Axis multiplier. Defaults to ``None``.

        Returns
        -------
        ipywidgets.SelectionSlider

            Axis slider.

        Example
        -------
        1. Get the slider for the x-coordinate.

        >>> p1 = (0, 0, 0)
        >>> p2 = (10e-9, 10e-9, 10e-9)
        >>> n = (10, 10, 10)
        >>> mesh = df.Mesh(p1=p1, p2=p2, n=n)
        ...
        >>> mesh.slider('x')
        SelectionSlider(...)

        """
        if isinstance(axis, str):
            axis = self.region._dim2index(axis)

        if multiplier is None:
            multiplier = uu.si_multiplier(self.region.edges[axis])

        slider_min = self.index2point((0, 0, 0))[axis]
        slider_max = self.index2point(np.subtract(self.n, 1))[axis]
        slider_step = self.cell[axis]
        if description is None:
            description = (
                f"{self.region.dims[axis]} ({uu.rsi_prefixes[multiplier]}"
                f"{self.region.units[axis]})"
            )

        values = np.arange(slider_min, slider_max + 1e-20, slider_step)
        labels = np.around(values / multiplier, decimals=3).tolist()
        values = values.tolist()
        options = list(zip(labels, values))

        # Select middle element for slider value
        slider_value = values[int(self.n[axis] / 2)]

        return ipywidgets.SelectionSlider(
            options=options, value=slider_value, description=description, **kwargs
        )

    def axis_selector(self, *, widget="dropdown", description="axis"):
        """Axis selector.

        For ``widget='dropdown'``, ``ipywidgets.Dropdown`` is returned, whereas
        for ``widget='radiobuttons'``, ``ipywidgets.RadioButtons`` is returned.
        Default widget description can be changed using ``description``.

        Parameters
        ----------
        widget : str

            Type of widget to be returned. Defaults to ``'dropdown'``.

        description : str

            Widget description to be showed. Defaults to ``'axis'``.

        Returns
        -------
        ipywidgets.Dropdown, ipywidgets.RadioButtons

            Axis selection widget.

        Example
        -------
        1. Get the ``RadioButtons`` slider.

        >>> p1 = (0, 0, 0)
        >>> p2 = (10e-9, 10e-9, 10e-9)
        >>> n = (10, 10, 10)
        >>> mesh = df.Mesh(p1=p1, p2=p2, n=n)
        ...
        >>> mesh.axis_selector(widget='radiobuttons')
        RadioButtons(...)

        """
        if widget.lower() == "dropdown":
            widget_cls = ipywidgets.Dropdown
        elif widget == "radiobuttons":
            widget_cls = ipywidgets.RadioButtons
        else:
            msg = f"Widget {widget} is not supported."
            raise ValueError(msg)

        return widget_cls(
            options=self.region.dims,
            value="z",
            description=description,
            disabled=False,
        )

    def coordinate_field(self):
        """Create a field whose values are the mesh coordinates.

        This method can be used to create a vector field with values equal to the
        coordinates of the cell midpoints. The result is equivalent to a field created
        with the following code:

        .. code-block::

            mesh = df.Mesh(...)
            df.Field(mesh, dim=mesh.region.ndim, value=lambda point: point)

        This method should be preferred over the manual creation with a callable because
        it provides much better performance.

        Returns
        -------
        discretisedfield.Field

            Field with coordinates as values.

        Examples
        --------
        1. Create a coordinate field.

        >>> import discretisedfield as df
        ...
        >>> mesh = df.Mesh(p1=(0, 0, 0), p2=(4, 2, 1), cell=(1, 1, 1))
        >>> cfield = mesh.coordinate_field()
        >>> cfield
        Field(...)

        2. Extract its value at position (0.5, 0.5, 0.5)

        >>> cfield((0.5, 0.5, 0.5))
        array([0.5, 0.5, 0.5])

        3. Compare with manually created coordinate field

        >>> manually = df.Field(mesh, nvdim=3, value=lambda point: point)
        >>> cfield.allclose(manually)
        True

        """

        field = df.Field(
            self,
            nvdim=self.region.ndim,
            vdims=self.region.dims,
            vdim_mapping=dict(zip(self.region.dims, self.region.dims)),
        )
        for i, dim in enumerate(self.region.dims):
            cells = self.cells  # avoid re-computing cells
            field.array[..., i] = getattr(cells, dim).reshape(
                tuple(self.n[i] if i == j else 1 for j in range(self.region.ndim))
            )

        return field

    def fftn(self, rfft=False):
        """Performs an N-dimensional discrete Fast Fourier Transform (FFT) on the mesh.

        This method computes the FFT in an N-dimensional space. The FFT is a way to
        transform a spatial-domain into a frequency domain. Note that any information
        about subregions in the mesh is lost during this transformation.

        Parameters
        ----------
        rfft : bool, optional

            Determines if a real FFT is to be performed (if True) or a complex FFT
            (if False). Defaults to False, i.e., a complex FFT is performed by default.

        Returns
        -------
        discretisedfield.Mesh

            A mesh representing the Fourier transform of the original mesh. The returned
            mesh has dimensions labeled with frequency (k) and cells have coordinates
            that correspond to the correct frequencies in the frequency domain.

        Examples
        --------
        1. Create a mesh and perform a FFT.
        >>> import discretisedfield as df
        >>> mesh = df.Mesh(p1=0, p2=10, cell=2)
        >>> fft_mesh = mesh.fftn()
        >>> fft_mesh.n
        array([5])
        >>> fft_mesh.cell
        array([0.1])
        >>> fft_mesh.region.pmin
        array([-0.25])
        >>> fft_mesh.region.pmax
        array([0.25])

        2. Perform a real FFT.
        >>> fft_mesh = mesh.fftn(rfft=True)
        >>> fft_mesh.n
        array([3])
        >>> fft_mesh.cell
        array([0.1])
        >>> fft_mesh.region.pmin
        array([-0.05])
        >>> fft_mesh.region.pmax
        array([0.25])

        3. Create a 2D mesh and perform a FFT. This demonstrates how the function works
        with higher dimensional meshes.
        >>> mesh = df.Mesh(p1=(0, 0), p2=(10, 10), cell=(2, 2))
        >>> fft_mesh = mesh.fftn()
        >>> fft_mesh.n
        array([5, 5])
        >>> fft_mesh.cell
        array([0.1, 0.1])
        >>> fft_mesh.region.pmin
        array([-0.25, -0.25])
        >>> fft_mesh.region.pmax
        array([0.25, 0.25])
        """

        p1 = []
        p2 = []
        n = []

        for i in range(self.region.ndim):
            if self.n[i] == 1:
                # a single sample has the single frequency 0: centre the k-cell there
                p1.append(-0.5 / self.cell[i])
                p2.append(0.5 / self.cell[i])
                n.append(1)
            else:
                if rfft and i == self.region.ndim - 1:
                    # last frequency is different for rfft if it has more than 1 element
                    freqs = spfft.rfftfreq(self.n[i], self.cell[i])
                else:
                    freqs = spfft.fftfreq(self.n[i], self.cell[i])
                # Shift the region boundaries to get the correct coordinates of
                # mesh cells.
                # This effectively does the same as using fftshift
                dfreq = abs(freqs[1] - freqs[0]) / 2
                p1.append(min(freqs) - dfreq)
                p2.append(max(freqs) + dfreq)
                n.append(len(freqs))

        kdims = [f"k_{d}" for d in self.region.dims]
        kunits = [f"({u})" + "$^{-1}$" for u in self.region.units]
        region = df.Region(
            p1=p1,
            p2=p2,
            dims=kdims,
            units=kunits,
            tolerance_factor=self.region.tolerance_factor,
        )
        # Subregions cannot be kept as we loose the information about the
        # translation and size of the original subregions.
        mesh = df.Mesh(region=region, n=n)

        return mesh

    def ifftn(self, rfft=False, shape=None):
        """Performs an N-dimensional discrete inverse Fast Fourier Transform (iFFT)
        on the mesh.

        This function calculates the iFFT in an N-dimensional space. The iFFT is a
        method to convert a frequency-domain signal into a spatial-domain signal.
        If 'rfft' is set to True and 'shape' is None, the original mesh shape is
        assumed to be even in the last dimension.

        Please note that during Fourier transformations, the original position
        information is lost, causing the inverse Fourier transform to be centered at
        the origin. This can be rectified by `mesh.translate` to translate the mesh
        back to the desired position.

        Parameters
        ----------
        rfft : bool, optional

            If set to True, a real FFT is performed. If False, a complex FFT is
            performed. Defaults to False.

        shape : (tuple, np.ndarray, list), optional

            Specifies the shape of the original mesh. Defaults to None, which means the
            shape of the original mesh is used.

        Returns
        -------
        discretisedfield.Mesh

            A mesh representing the inverse Fourier transform of the mesh.

        Examples
        --------
        1. Create a mesh and perform an iFFT.
        >>> import discretisedfield as df
        >>> mesh = df.Mesh(p1=0, p2=10, cell=2)
        >>> ifft_mesh = mesh.fftn().ifftn()
        >>> ifft_mesh.n
        array([5])
        >>> ifft_mesh.cell
        array([2.])
        >>> ifft_mesh.region.pmin
        array([-5.])
        >>> ifft_mesh.region.pmax
        array([5.])

        2. Perform a real iFFT.
        >>> ifft_mesh = mesh.fftn(rfft=True).ifftn(rfft=True, shape=mesh.n)
        >>> ifft_mesh.n
        array([5])
        >>> ifft_mesh.cell
        array([2.])
        >>> ifft_mesh.region.pmin
        array([-5.])
        >>> ifft_mesh.region.pmax
        array([5.])

        3. Perform a 2D iFFT.
        >>> mesh = df.Mesh(p1=(0, 0), p2=(10, 10), cell=(2, 2))
        >>> ifft_mesh = mesh.fftn().ifftn()
        >>> ifft_mesh.n
        array([5, 5])
        >>> ifft_mesh.cell
        array([2., 2.])
        >>> ifft_mesh.region.pmin
        array([-5., -5.])
        >>> ifft_mesh.region.pmax
        array([5., 5.])

        4. Perform a real 2D iFFT.
        >>> ifft_mesh = mesh.fftn(rfft=True).ifftn(rfft=True, shape=mesh.n)
        >>> ifft_mesh.n
        array([5, 5])
        >>> ifft_mesh.cell
        array([2., 2.])
        >>> ifft_mesh.region.pmin
        array([-5., -5.])
        >>> ifft_mesh.region.pmax
        array([5., 5.])

        """
        if shape is not None:
            if isinstance(shape, numbers.Number):
                shape = (shape,)

            if isinstance(shape, (tuple, list, np.ndarray)):
                if len(shape) != self.region.ndim:
                    raise ValueError(
                        "The shape must have the same number of dimensions as the mesh"
                        f" ({self.region.ndim=})."
                    )
                if not np.array_equal(shape[:-1], self.n[:-1]):
                    raise ValueError(
                        f"The shape apart from the last dimension must match {self.n=}."
                    )
            else:
                raise TypeError(
                    "Expected shape to be either int, tuple, list or np.ndarray but got"
                    f" {type(shape)}."
                )
            if shape[-1] // 2 + 1 != self.n[-1]:
                raise ValueError(
                    "The last dimension of the shape must match"
                    f" {(self.n[-1] - 1) * 2} or {(self.n[-1] - 1) * 2 + 1} not"
                    f" {shape[-1]}."
                )
        else:
            shape = self.n.copy()
            if rfft and self.n[-1] != 1:
                shape[-1] = (self.n[-1] - 1) * 2

        p1 = []
        p2 = []
        n = []
        for i in range(self.region.ndim):
            if shape[i] == 1:
                p1.append(-0.5 / self.cell[i])
                p2.append(0.5 / self.cell[i])
                n.append(1)
            else:
                freqs = spfft.fftfreq(shape[i], self.cell[i])
                # Shift the region boundaries to get the correct coordinates of
                # mesh cells.
                dfreq = abs(freqs[1] - freqs[0]) / 2
                p1.append(min(freqs) - dfreq)
                p2.append(max(freqs) + dfreq)
                n.append(len(freqs))

        kdims = [d[2:] if d.startswith("k_") else d for d in self.region.dims]
        kunits = [
            u[1:-8] if u.startswith("(") and u.endswith(")$^{-1}$") else u
            for u in self.region.units
        ]

        region = df.Region(
            p1=p1,
            p2=p2,
            dims=kdims,
            units=kunits,
            tolerance_factor=self.region.tolerance_factor,
        )

        mesh = df.Mesh(region=region, n=n)

        # Shift the center of the mesh to the origin.
        mesh.translate(-mesh.region.center, inplace=True)

        return mesh
