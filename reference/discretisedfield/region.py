import collections
import numbers
import warnings

import numpy as np
import ubermagutil.units as uu

import discretisedfield.plotting as dfp
from . import html
from .io import _RegionIO


class Region(_RegionIO):
    r"""Region.

    A cuboid region spans between two corner points :math:`\mathbf{p}_1` and
    :math:`\mathbf{p}_2`. Points ``p1`` and ``p2`` can be any two
    diagonally-opposite points. If any of the edge lengths of the cuboid region
    is zero, ``ValueError`` is raised.

    Parameters
    ----------
    p1 / p2 : array_like

        Diagonally-opposite corner points of the region, for example in three
        dimensions :math:`\mathbf{p}_i = (p_x, p_y, p_z)`.

    dims : array_like of str, optional

        Name of the respective geometrical dimensions of the region.

        Up to three dimensions, this defaults to ``x``, ``y``, and ``z``. For more than
        three dimensions, it defaults to ``x1``, ``x2``, ``x3``, ``x4``, etc.

    units : array_like of str, optional

        Physical units of the region. This is mainly used for labelling plots.
        Defaults to ``m`` for all the dimensions.

    tolerance_factor : float, optional

        This factor is used to obtain a tolerance for comparison operations,
        e.g. ``region1 in region2``. It is internally multiplied with the
        minimum of the edge lengths to adjust the tolerance to the region size
        and have more accurate floating-point comparisons. Defaults to
        ``1e-12``.

    Raises
    ------
    ValueError

        If any of the region's edge lengths is zero.

    Examples
    --------
    1. Defining a nano-sized region.

    >>> import discretisedfield as df
    ...
    >>> p1 = (-50e-9, -25e-9, 0)
    >>> p2 = (50e-9, 25e-9, 5e-9)
    >>> region = df.Region(p1=p1, p2=p2)
    ...
    >>> region
    Region(...)

    2. An attempt to define a region whose one of the edge lengths is zero.

    >>> # The edge length in the z-direction is zero.
    >>> p1 = (-25, 3, 1)
    >>> p2 = (25, 6, 1)
    >>> region = df.Region(p1=p1, p2=p2)
    Traceback (most recent call last):
        ...
    ValueError: ...

    """

    __slots__ = ["_pmin", "_pmax", "_dims", "_units", "_tolerance_factor"]

    def __init__(
        self, p1=None, p2=None, dims=None, units=None, tolerance_factor=1e-12, **kwargs
    ):
        # Allow pmin and pmax instead of p1 and p2 to simplify the internal code and the
        # conversion from a dict to a Region. Users should generally use p1 and p2 in
        # their code.
        if "pmin" in kwargs and "pmax" in kwargs:
            pmin, pmax = kwargs["pmin"], kwargs["pmax"]
            if not all(np.asarray(pmin) < np.asarray(pmax)):
                raise ValueError(
                    f"The values in {pmin=} must be element-wise smaller than in"
                    f" {pmax=}; use p1 and p2 if the input values are unordered."
                )
            p1, p2 = pmin, pmax

        # scalar data types for 1d regions
        if isinstance(p1, numbers.Real):
            p1 = [p1]
        if isinstance(p2, numbers.Real):
            p2 = [p2]

        if not isinstance(p1, (tuple, list, np.ndarray)) or not isinstance(
            p2, (tuple, list, np.ndarray)
        ):
            raise TypeError(
                "p1 and p2 must be real numbers (1d) or sequences of real numbers. Not"
                f" {type(p1)=} and {type(p2)=}."
            )

        if len(p1) != len(p2):
            raise ValueError(
                "The length of p1 and p2 must be the same. Not"
                f" {len(p1)=} and {len(p2)=}."
            )

        if len(p1) == 0:
            raise ValueError("p1 and p2 must not be empty.")

        if not all(isinstance(i, numbers.Real) for i in p1):
            raise TypeError("p1 can only contain elements of type numbers.Real.")

        if not all(isinstance(i, numbers.Real) for i in p2):
            raise TypeError("p2 can only contain elements of type numbers.Real.")

        self._pmin = np.minimum(p1, p2)
        self._pmax = np.maximum(p1, p2)
        self.dims = dims
        self.units = units
        self.tolerance_factor = tolerance_factor

        if not np.all(self.edges):
            raise ValueError(
                f"At least one of the region's edge lengths is zero: {self.edges=}."
            )

    @property
    def pmin(self):
        r"""Point with minimum coordinates in the region.

        The :math:`i`-th component of :math:`\mathbf{p}_\text{min}` is computed
        from points :math:`p_1` and :math:`p_2`, between which the region
        spans: :math:`p_\text{min}^i = \text{min}(p_1^i, p_2^i)`.

        Returns
        -------
        numpy.ndarray

            Point with minimum coordinates. E.g. for three dimensions
            :math:`(p_x^\text{min}, p_y^\text{min}, p_z^\text{min})`.

        Examples
        --------
        1. Getting region's point with minimum coordinates.

        >>> import discretisedfield as df
        ...
        >>> p1 = (-1.1, 2.9, 0)
        >>> p2 = (5, 0, -0.1)
        >>> region = df.Region(p1=p1, p2=p2)
        ...
        >>> region.pmin
        array([-1.1,  0. , -0.1])

        .. seealso:: :py:func:`~discretisedfield.Region.pmax`

        """
        return self._pmin

    @property
    def pmax(self):
        r"""Point with maximum coordinates in the region.

        The :math:`i`-th component of :math:`\mathbf{p}_\text{max}` is computed
        from points :math:`p_1` and :math:`p_2`, between which the region
        spans: :math:`p_\text{max}^i = \text{max}(p_1^i, p_2^i)`.

        Returns
        -------
        numpy.ndarray

            Point with maximum coordinates. E.g. for three dimensions
            :math:`(p_x^\text{max}, p_y^\text{max}, p_z^\text{max})`.

        Examples
        --------
        1. Getting region's point with maximum coordinates.

        >>> import discretisedfield as df
        ...
        >>> p1 = (-1.1, 2.9, 0)
        >>> p2 = (5, 0, -0.1)
        >>> region = df.Region(p1=p1, p2=p2)
        ...
        >>> region.pmax
        array([5. , 2.9, 0. ])

        .. seealso:: :py:func:`~discretisedfield.Region.pmin`

        """
        return self._pmax

    @property
    def ndim(self):
        r"""Number of dimensions.

        Calculates the number of dimensions of the region.

        Returns
        -------
        int

            Number of dimensions of the region.

        Examples
        --------
        1. Getting number of dimensions of the region.

        >>> import discretisedfield as df
        ...
        >>> p1 = (-1.1, 2.9, 0)
        >>> p2 = (5, 0, -0.1)
        >>> region = df.Region(p1=p1, p2=p2)
        ...
        >>> region.ndim
        3

        .. seealso:: :py:func:`~discretisedfield.Region.dims`

        """
        return len(self.pmin)

    @property
    def dims(self):
        r"""Names of the region's dimensions.

        Returns
        -------
        tuple of str

            Names of the region's dimensions.

        Examples
        --------
        1. Getting region's dimension names.

        >>> import discretisedfield as df
        ...
        >>> p1 = (-1.1, 2.9, 0)
        >>> p2 = (5, 0, -0.1)
        >>> region = df.Region(p1=p1, p2=p2)
        ...
        >>> region.dims
        ('x', 'y', 'z')

        .. seealso:: :py:func:`~discretisedfield.Region.ndim`
        """
        return self._dims

    @dims.setter
    def dims(self, dims):
        # TODO: Think about correct defaults
        if dims is None:
            if self.ndim <= 3:
                dims = ["x", "y", "z"][: self.ndim]
            else:
                dims = [f"x{i}" for i in range(self.ndim)]
        elif isinstance(dims, (tuple, list, np.ndarray, str)):
            if isinstance(dims, str):
                dims = [dims]
            if len(dims) != self.ndim:
                raise ValueError(
                    "dims must have the same length as p1 and p2."
                    f" Not len(dims)={len(dims)} and ndim={self.ndim}."
                )
            if not all(isinstance(dim, str) for dim in dims):
                raise TypeError("dims can only contain elements of type str.")
            if len(dims) != len(set(dims)):
                raise ValueError("dims must be unique.")
        else:
            raise TypeError(
                "dims must be of type tuple, list, or None (for default behaviour)."
                f" Not {type(dims)}."
            )

        self._dims = tuple(dims)

    def _dim2index(self, dim):
        try:
            return self.dims.index(dim)
        except ValueError:
            raise ValueError(f"'{dim}' not in region.dims={self.dims}.") from None

    @property
    def units(self):
        r"""Units of the region's dimensions.

        Returns
        -------
        tuple of str

            Units of the region's dimensions.

        Examples
        --------
        1. Getting region's dimension units.

        >>> import discretisedfield as df
        ...
        >>> p1 = (-1.1, 2.9, 0)
        >>> p2 = (5, 0, -0.1)
        >>> region = df.Region(p1=p1, p2=p2)
        ...
        >>> region.units
        ('m', 'm', 'm')

        """
        return self._units

    @units.setter
    def units(self, units):
        if units is None:
            units = ["m"] * self.ndim
        elif isinstance(units, (tuple, list, np.ndarray, str)):
            if isinstance(units, str):
                units = [units]
            if len(units) != self.ndim:
                raise ValueError(
                    "units must have the same length as p1 and p2."
                    f" Not {len(units)=} and {self.ndim=}."
                )
            if not all(isinstance(unit, str) for unit in units):
                raise TypeError("units can only contain elements of type str.")
        else:
            raise TypeError(
                "units must be of type tuple, list, or None (for default behaviour)."
                f" Not {type(units)}."
            )

        self._units = tuple(units)

    @property
    def tolerance_factor(self):
        r"""Tolerance factor for floating-point comparisons.

        The tolerance factor is used for allclose and ``in`` if no other tolerance is
        provided. It is multiplied with the minimum edge length of the region to obtain
        reasonable relative and absolute tolerance.

        """
        return self._tolerance_factor

    @tolerance_factor.setter
    def tolerance_factor(self, tolerance_factor):
        if not isinstance(tolerance_factor, numbers.Number):
            raise TypeError(
                "tolerance_factor must be of type numbers.Number. Not"
                f" tolerance_factor={type(tolerance_factor)}."
            )
        self._tolerance_factor = tolerance_factor

    @property
    def edges(self):
        r"""Region's edge lengths.

        Edge length is computed from the points between which the region spans
        :math:`\mathbf{p}_1` and :math:`\mathbf{p}_2`:

        .. math::

            \mathbf{l} = (|p_2^x - p_1^x|, |p_2^y - p_1^y|, |p_2^z - p_1^z|).

        Returns
        -------
        numpy.ndarray

             Edge lengths. E.g. in three dimensions :math:`(l_{x}, l_{y}, l_{z})`.

        Examples
        --------
        1. Getting edge lengths of the region.

        >>> import discretisedfield as df
        ...
        >>> p1 = (0, 0, -5)
        >>> p2 = (5, 15, 15)
        >>> region = df.Region(p1=p1, p2=p2)
        ...
        >>> region.edges
        array([ 5, 15, 20])

        """
        return self.pmax - self.pmin

    @property
    def center(self):
        r"""Center point.

        Center point is computed as the middle point between region's points
        with minimum and maximum coordinates:

        .. math::

            \mathbf{p}_\text{center} = \frac{1}{2} (\mathbf{p}_\text{min}
            + \mathbf{p}_\text{max}).

        Returns
        -------
        numpy.ndarray

            Center point. E.g. in three dimensions :math:`(p_c^x, p_c^y, p_c^z)`.

        Examples
        --------
        1. Getting the center point.

        >>> import discretisedfield as df
        ...
        >>> p1 = (0, 0, 0)
        >>> p2 = (5, 15, 20)
        >>> region = df.Region(p1=p1, p2=p2)
        ...
        >>> region.center
        array([ 2.5,  7.5, 10. ])

        """
        return 0.5 * np.add(self.pmin, self.pmax)

    @property
    def centre(self):
        return self.center

    @property
    def volume(self):
        r"""Region's volume.

        It is computed by multiplying edge lengths of the region.
        E.g. in three dimensions

        .. math::

            V = l_x l_y l_z.

        Returns
        -------
        numbers.Real

            Volume of the region.

        Examples
        --------
        1. Computing the volume of the region.

        >>> import discretisedfield as df
        ...
        >>> p1 = (0, 0, 0)
        >>> p2 = (5, 10, 2)
        >>> region = df.Region(p1=p1, p2=p2)
        ...
        >>> region.volume
        100

        """
        return np.prod(self.edges).item()

    def __repr__(self):
        r"""Representation string.

        Internally `self._repr_html_()` is called and all html tags are removed
        from this string.

        Returns
        -------
        str

           Representation string.

        Example
        -------
        1. Getting representation string.

        >>> import discretisedfield as df
        ...
        >>> p1 = (0, 0, 0)
        >>> p2 = (2, 2, 1)
        >>> region = df.Region(p1=p1, p2=p2)
        ...
        >>> region
        Region(pmin=[0, 0, 0], pmax=[2, 2, 1], ...)

        """
        return html.strip_tags(self._repr_html_())

    def _repr_html_(self):
        """Show HTML-based representation in Jupyter notebook."""
        return html.get_template("region").render(region=self)

    def __eq__(self, other):
        r"""Relational operator ``==``.

        Two regions are considered to be equal if they have the same minimum
        and maximum coordinate points, the same units, and the same dimension names.

        Parameters
        ----------
        other : discretisedfield.Region

            Second operand.

        Returns
        -------
        bool

            ``True`` if two regions are equal and ``False`` otherwise.

        Examples
        --------
        1. Usage of relational operator ``==``.

        >>> import discretisedfield as df
        ...
        >>> region1 = df.Region(p1=(0, 0, 0), p2=(5, 5, 5))
        >>> region2 = df.Region(p1=(0.0, 0, 0), p2=(5.0, 5, 5))
        >>> region3 = df.Region(p1=(1, 1, 1), p2=(5, 5, 5))
        ...
        >>> region1 == region2
        True
        >>> region1 != region2
        False
        >>> region1 == region3
        False
        >>> region1 != region3
        True

        """
        if isinstance(other, self.__class__):
            return (
                np.array_equal(self.pmin, other.pmin)
                and np.array_equal(self.pmax, other.pmax)
                and self.dims == other.dims
                and self.units == other.units
            )

        return False

    def allclose(
        self,
        other,
        rtol=None,
        atol=None,
    ):
        r"""Check if two regions are close.

        Two regions are considered to be equal if they have the same minimum
        and maximum coordinate points: :math:`\mathbf{p}^\text{max}_1 =
        \mathbf{p}^\text{max}_2` and :math:`\mathbf{p}^\text{min}_1 =
        \mathbf{p}^\text{min}_2` within a tolerance.

        Parameters
        ----------
        other : discretisedfield.Region

            Second operand.

        atol : numbers.Number, optional

            Absolute tolerance. If ``None``, the default value is
            the smallest edge length of the region multiplied by
            the tolerance factor.

        rtol : numbers.Number, optional

            Relative tolerance. If ``None``, ``region.tolerance_factor`` is used.

        Returns
        -------
        bool

            ``True`` if two regions are equal (within floating-point accuracy) and
            ``False`` otherwise.

        Examples
        --------
        1. Usage of ``allclose`` method.

        >>> import discretisedfield as df
        ...
        >>> region1 = df.Region(p1=(0, 0, 0), p2=(5, 5, 5))
        >>> region2 = df.Region(p1=(0.0, 0, 0), p2=(5.0, 5, 5))
        >>> region3 = df.Region(p1=(1, 1, 1), p2=(5, 5, 5))
        ...
        >>> region1.allclose(region2)
        True
        >>> region1.allclose(region3)
        False
        >>> region2.allclose(region3)
        False

        """
        if isinstance(other, self.__class__):
            if atol is None:
                atol = np.min(self.edges) * self.tolerance_factor
            elif not isinstance(atol, numbers.Number):
                raise TypeError(f"{type(atol)=} is not a number.")

            if rtol is None:
                rtol = self.tolerance_factor
            elif not isinstance(rtol, numbers.Number):
                raise TypeError(f"{type(rtol)=} is not a number.")

            return np.allclose(
                self.pmin, other.pmin, atol=atol, rtol=rtol
            ) and np.allclose(self.pmax, other.pmax, atol=atol, rtol=rtol)

        raise TypeError(
            f"Unsupported {(type(other))=}; only objects of type Region are allowed for"
            " method allclose."
        )

    def __contains__(self, other):
        """Determine if a point or another region belong to the region.

        Point is considered to be in the region if

        .. math::

            p^\\text{min}_{i} \\le p_{i} \\le p^\\text{max}_{i}, \\text{for}\\,
            i in dims.

        Similarly, if the second operand is ``discretisedfield.Region`` object,
        it is considered to be in the region if both its ``pmin`` and ``pmax``
        belong to the region.

        Parameters
        ----------
        other : array_like or discretisedfield.Region

            The point coordinate (E.g. in three dimensions
            :math:`(p_{x}, p_{y}, p_{z})`) or a region object.

        Returns
        -------
        bool

            ``True`` if ``other`` is inside the region and ``False`` otherwise.

        Example
        -------
        1. Check if point is inside the region.

        >>> import discretisedfield as df
        ...
        >>> p1 = (0, 0, 0)
        >>> p2 = (2, 2, 1)
        >>> region = df.Region(p1=p1, p2=p2)
        >>> (1, 1, 1) in region
        True
        >>> (1, 3, 1) in region
        False
        >>> # corner points are considered to be in the region
        >>> p1 in region
        True
        >>> p2 in region
        True

        2. Check if another region belongs to the region.

        >>> df.Region(p1=(0, 0, 0), p2=(1, 1, 1)) in region
        True
        >>> df.Region(p1=(0, 0, 0), p2=(2, 2, 2)) in region
        False
        >>> # Region is considered to be in itself
        >>> region in region
        True

        """
        if isinstance(other, (numbers.Real, collections.abc.Iterable)):
            atol = np.min(self.edges) * self.tolerance_factor
            rtol = self.tolerance_factor
            return np.all(
                np.logical_and(
                    np.less_equal(self.pmin, other)
                    | np.isclose(self.pmin, other, rtol=rtol, atol=atol),
                    np.greater_equal(self.pmax, other)
                    | np.isclose(self.pmax, other, rtol=rtol, atol=atol),
                )
            )
        if isinstance(other, self.__class__):
            return other.pmin in self and other.pmax in self

        return False

    def __or__(self, other):
        """Old implementation to find facing surfaces.

        :meta private:
        """
        raise AttributeError(
            "This operator has been removed. Please use the `facing_surface` method."
        )

    def facing_surface(self, other):
        """Facing surface.

        Parameters
        ----------
        other : discretisedfield.Region

            Second operand.

        Returns
        -------
        tuple : (ndims,)

            The first element is the axis facing surfaces are perpendicular to.
            If we start moving along that axis (e.g. from minus infinity) the
            first region we are going to enter is the region which is the
            second element of the tuple. When we leave that region, we enter
            the second region, which is the third element of the tuple.

        Examples
        --------
        1. Find facing surfaces.

        >>> import discretisedfield as df
        ...
        >>> p11 = (0, 0, 0)
        >>> p12 = (100e-9, 50e-9, 20e-9)
        >>> region1 = df.Region(p1=p11, p2=p12)
        ...
        >>> p21 = (0, 0, 20e-9)
        >>> p22 = (100e-9, 50e-9, 30e-9)
        >>> region2 = df.Region(p1=p21, p2=p22)
        ...
        >>> res = region1.facing_surface(region2)
        >>> res[0]
        'z'
        >>> res[1] == region1
        True
        >>> res[2] == region2
        True

        """
        if not isinstance(other, self.__class__):
            raise TypeError(f"Cannot find facing surface for {type(other)}.")

        for i in range(self.ndim):
            if self.pmin[i] >= other.pmax[i]:
                return (self.dims[i], other, self)
            if other.pmin[i] >= self.pmax[i]:
                return (self.dims[i], self, other)
        else:
            msg = "Cannot find facing surface."
            raise ValueError(msg)

    @property
    def multiplier(self):
        """Compute multiplier for the region."""
        return uu.si_max_multiplier(self.edges)

    def scale(self, factor, reference_point=None, inplace=False):
        """Scale the region.

        This method scales the region about its ``center`` point or a
        ``reference_point`` if provided. If ``factor`` is a number the same scaling is
        applied along all dimensions. If ``factor`` is array-like its length must match
        ``region.ndim`` and different factors are applied along the different directions
        (based on their order). A new object is created unless ``inplace=True`` is
        specified.

        Parameters
        ----------
        factor : numbers.Real or array-like of numbers.Real

            Factor to scale the region.

        reference_point : array_like, optional

            The position of the reference point is fixed when scaling the region. If not
            specified the region is scaled about its ``center``.

        inplace : bool, optional

            If True, the Region object is modified in-place. Defaults to False.

        Returns
        -------
        discretisedfield.Region

            Resulting region.

        Raises
        ------
        ValueError, TypeError

            If the operator cannot be applied.

        Example
        -------
        1. Scale region uniformly.

        >>> import discretisedfield as df
        >>> p1 = (0, 0, 0)
        >>> p2 = (10, 10, 10)
        >>> region = df.Region(p1=p1, p2=p2)
        >>> res = region.scale(5)
        >>> res.pmin
        array([-20., -20., -20.])
        >>> res.pmax
        array([30., 30., 30.])

        2. Scale the region inplace.

        >>> import discretisedfield as df
        >>> p1 = (-10, -10, -10)
        >>> p2 = (10, 10, 10)
        >>> region = df.Region(p1=p1, p2=p2)
        >>> region.scale(5, inplace=True)
        Region(...)
        >>> region.pmin
        array([-50., -50., -50.])
        >>> region.pmax
        array([50., 50., 50.])

        3. Scale region with different factors along different directions.

        >>> import discretisedfield as df
        >>> p1 = (0, 0, 0)
        >>> p2 = (10, 10, 10)
        >>> region = df.Region(p1=p1, p2=p2)
        >>> res = region.scale((2, 3, 4))
        >>> res.pmin
        array([ -5., -10., -15.])
        >>> res.pmax
        array([15., 20., 25.])

        """
        if isinstance(factor, numbers.Real):
            pass
        elif not isinstance(factor, (tuple, list, np.ndarray)):
            raise TypeError(f"Unsupported type {type(factor)} for scale.")
        elif len(factor) != self.ndim:
            raise ValueError(
                f"Wrong length for array-like argument: {len(factor)}; expected length"
                f" {len(self.pmin)}."
            )
        else:
            for elem in factor:
                if not isinstance(elem, numbers.Real):
                    raise TypeError(
                        f"Unsupported element {elem} of type {type(elem)} for scale."
                    )

        if reference_point is None:
            reference_point = self.center
        elif isinstance(reference_point, numbers.Real):
            reference_point = [reference_point]
        elif not isinstance(reference_point, (tuple, list, np.ndarray)):
            raise TypeError(
                "'reference_point' must be a sequence (or a real number for 1d) or"
                f" None (for default behaviour). Not {type(reference_point)=}."
            )

        if len(reference_point) != self.ndim:
            raise ValueError(
                f"The 'reference_point' must contain {self.ndim} elements, not"
                f" {len(reference_point)=}."
            )
        elif any(not isinstance(i, numbers.Real) for i in reference_point):
            raise ValueError("Elements of 'reference_point' must be real numbers.")

        pmin = reference_point - (reference_point - self.pmin) * factor
        pmax = pmin + self.edges * factor

        if inplace:
            if not np.all(pmax - pmin):
                raise ValueError(
                    "At least one of the region's edge lengths would be zero after"
                    f" scaling with {factor=}."
                )
            self._pmin = np.minimum(pmin, pmax)
            self._pmax = np.maximum(pmin, pmax)
            return self
        else:
            return self.__class__(
                p1=pmin,
                p2=pmax,
                dims=self.dims,
                units=self.units,
                tolerance_factor=self.tolerance_factor,
            )

    def translate(self, vector, inplace=False):
        """Translate the region.

        This method translates the region by adding ``vector`` to ``pmin`` and ``pmax``.
        The ``vector`` must have ``Region.ndim`` elements. A new object is created
        unless ``inplace=True`` is specified.

        Parameters
        ----------
        vector : array-like of numbers.Real

            Vector to translate the region.

        inplace : bool, optional

            If True, the Region object is modified in-place. Defaults to False.

        Returns
        -------
        discretisedfield.Region

            Resulting region.

        Raises
        ------
        ValueError, TypeError

            If the operator cannot be applied.

        Examples
        --------
        1. Translate the region.

        >>> import discretisedfield as df
        >>> p1 = (0, 0, 0)
        >>> p2 = (10, 10, 10)
        >>> region = df.Region(p1=p1, p2=p2)
        >>> res = region.translate((2, -2, 5))
        >>> res.pmin
        array([ 2, -2,  5])
        >>> res.pmax
        array([12,  8, 15])

        2. Translate the region inplace.

        >>> import discretisedfield as df
        >>> p1 = (0, 0, 0)
        >>> p2 = (10, 10, 10)
        >>> region = df.Region(p1=p1, p2=p2)
        >>> region.translate((2, -2, 5), inplace=True)
        Region(...)
        >>> region.pmin
        array([ 2, -2,  5])
        >>> region.pmax
        array([12,  8, 15])

        """
        # allow scalar values for 1d regions
        if isinstance(vector, numbers.Real):
            vector = [vector]
        if not isinstance(vector, (tuple, list, np.ndarray)):
            raise TypeError(f"Unsupported type {type(vector)} for translate.")
        elif len(vector) != self.ndim:
            raise ValueError(
                f"Wrong length for array-like argument: {len(vector)}; expected length"
                f" {len(self.pmin)}."
            )
        for elem in vector:
            if not isinstance(elem, numbers.Real):
                raise TypeError(
                    f"Unsupported element {elem} of type {type(elem)} for translate."
                )
        if inplace:
            pmin = np.add(self.pmin, vector)
            pmax = np.add(self.pmax, vector)
            if not np.all(pmax - pmin):
                raise ValueError(
                    "At least one of the region's edge lengths would be zero after"
                    f" translating by {vector=}."
                )
            self._pmin = pmin
            self._pmax = pmax
            return self
        else:
            return self.__class__(
                p1=np.add(self.pmin, vector),
                p2=np.add(self.pmax, vector),
                dims=self.dims,
                units=self.units,
                tolerance_factor=self.tolerance_factor,
            )

    def rotate90(self, ax1, ax2, k=1, reference_point=None, inplace=False):
        """Rotate region by 90 degrees.

        Rotate the region ``k`` times by 90 degrees in the plane defined by ``ax1`` and
        ``ax2``. The rotation direction is from ``ax1`` to ``ax2``, the two must be
        different.

        Parameters
        ----------
        ax1 : str

            Name of the first dimension.

        ax2 : str

            Name of the second dimension.

        k : int, optional

            Number of 90° rotations, defaults to 1.

        reference_point : array_like, optional

            Point around which the region is rotated. If not provided the region's
            centre point is used.

        inplace : bool, optional

            If ``True``, the rotation is applied in-place. Defaults to ``False``.

        Returns
        -------
        discretisedfield.Region

            The rotated region object. Either a new object or a reference to the
            existing region for ``inplace=True``.

        Examples
        --------

        >>> import discretisedfield as df
        >>> import numpy as np
        >>> p1 = (0, 0, 0)
        >>> p2 = (10, 8, 6)
        >>> region = df.Region(p1=p1, p2=p2)
        >>> rotated = region.rotate90('x', 'y')
        >>> rotated.pmin
        array([ 1., -1.,  0.])
        >>> rotated.pmax
        array([9., 9., 6.])

        See also
        --------
        :py:func:`~discretisedfield.Mesh.rotate90`
        :py:func:`~discretisedfield.Field.rotate90`

        """
        if ax1 == ax2:
            raise ValueError(f"{ax1=} and {ax2=} must have different values.")
        if not isinstance(k, int):
            raise TypeError(f"k must be an integer, not {type(k)=}.")

        if reference_point is None:
            reference_point = self.centre
        elif not isinstance(reference_point, (tuple, list, np.ndarray)):
            raise TypeError(
                f"reference_point must be array_like, not {type(reference_point)=}."
            )
        elif len(reference_point) != self.ndim:
            raise ValueError(
                f"reference_point must have length {self.ndim}, not"
                f" {len(reference_point)=}."
            )

        idx1 = self._dim2index(ax1)
        idx2 = self._dim2index(ax2)
        p1 = self.pmin.copy().astype("float")
        p2 = self.pmax.copy().astype("float")

        ref_1 = reference_point[idx1]
        ref_2 = reference_point[idx2]
        p1_inplane = np.array([p1[idx1] - ref_1, p1[idx2] - ref_2])
        p2_inplane = np.array([p2[idx1] - ref_1, p2[idx2] - ref_2])
        rot_matrix = np.array(
            [
                [np.cos(k * np.pi / 2), -np.sin(k * np.pi / 2)],
                [np.sin(k * np.pi / 2), np.cos(k * np.pi / 2)],
            ]
        )
        p1_rot = np.dot(rot_matrix, p1_inplane)
        p2_rot = np.dot(rot_matrix, p2_inplane)
        p1[idx1] = ref_1 + p1_rot[0]
        p1[idx2] = ref_2 + p1_rot[1]
        p2[idx1] = ref_1 + p2_rot[0]
        p2[idx2] = ref_2 + p2_rot[1]

        units = list(self.units)
        if k % 2 == 1:
            units[idx1], units[idx2] = units[idx2], units[idx1]

        if inplace:
            if not np.all(p2 - p1):
                raise ValueError(
                    "At least one of the region's edge lengths would be zero after"
                    f" rotating about {reference_point=}."
                )
            self._pmin = np.minimum(p1, p2)
            self._pmax = np.maximum(p1, p2)
            self.units = units
            return self
        else:
            return self.__class__(
                p1=p1,
                p2=p2,
                dims=self.dims,
                units=units,
                tolerance_factor=self.tolerance_factor,
            )

    @property
    def mpl(self):
        r"""``matplotlib`` plot.

        If ``ax`` is not passed, ``matplotlib.axes.Axes`` object is created
        automatically and the size of a figure can be specified using
        ``figsize``. The colour of lines depicting the region can be specified
        using ``color`` argument, which must be a valid ``matplotlib`` color.
        The plot is saved in PDF-format if ``filename`` is passed.

        It is often the case that the object size is either small (e.g. on a
        nanoscale) or very large (e.g. in units of kilometers). Accordingly,
        ``multiplier`` can be passed as :math:`10^{n}`, where :math:`n` is a
        multiple of 3 (..., -6, -3, 0, 3, 6,...). According to that value, the
        axes will be scaled and appropriate units shown. For instance, if
        ``multiplier=1e-9`` is passed, all axes will be divided by
        :math:`1\,\text{nm}` and :math:`\text{nm}` units will be used as
        axis labels. If ``multiplier`` is not passed, the best one is
        calculated internally.

        This method is based on ``matplotlib.pyplot.plot``, so any keyword
        arguments accepted by it can be passed (for instance, ``linewidth``,
        ``linestyle``, etc.).

        Parameters
        ----------
        ax : matplotlib.axes.Axes, optional

            Axes to which the plot is added. Defaults to ``None`` - axes are
            created internally.

        figsize : (2,) tuple, optional

            The size of a created figure if ``ax`` is not passed. Defaults to
            ``None``.

        color : int, str, tuple, optional

            A valid ``matplotlib`` color for lines depicting the region.
            Defaults to the default color palette.

        multiplier : numbers.Real, optional

            Axes multiplier. Defaults to ``None``.

        box_aspect : str, array_like (3), optional

            Set the aspect-ratio of the plot. If set to `'auto'` the aspect
            ratio is determined from the edge lengths of the region. To set
            different aspect ratios a tuple can be passed. Defaults to
            ``'auto'``.

        filename : str, optional

            If filename is passed, the plot is saved. Defaults to ``None``.

        Examples
        --------
        1. Visualising the region using ``matplotlib``.

        >>> import discretisedfield as df
        ...
        >>> p1 = (-50e-9, -50e-9, 0)
        >>> p2 = (50e-9, 50e-9, 10e-9)
        >>> region = df.Region(p1=p1, p2=p2)
        >>> region.mpl()

        """
        return dfp.MplRegion(self)

    @property
    def k3d(self):
        """``k3d`` plot.

        If ``plot`` is not passed, ``k3d.Plot`` object is created
        automatically. The colour of the region can be specified using
        ``color`` argument.

        For details about ``multiplier``, please refer to
        ``discretisedfield.Region.mpl``.

        This method is based on ``k3d.voxels``, so any keyword arguments
        accepted by it can be passed (e.g. ``wireframe``).

        Parameters
        ----------
        plot : k3d.Plot, optional

            Plot to which the plot is added. Defaults to ``None`` - plot is
            created internally.

        color : int, optional

            Colour of the region. Defaults to the default color palette.

        multiplier : numbers.Real, optional

            Axes multiplier. Defaults to ``None``.

        Examples
        --------
        1. Visualising the region using ``k3d``.

        >>> import discretisedfield as df
        ...
        >>> p1 = (-50e-9, -50e-9, 0)
        >>> p2 = (50e-9, 50e-9, 10e-9)
        >>> region = df.Region(p1=p1, p2=p2)
        >>> region.k3d()
        Plot(...)

        """
        return dfp.K3dRegion(self)

    @property
    def pyvista(self):
        r"""``pyvista`` plot."""
        return dfp.PyVistaRegion(self)

    def to_dict(self):
        """Convert region object to dict.

        Convert region object to dict with items pmin, pmax, dims,
        units, and tolerance_factor.

        """
        return {
            "pmin": self.pmin,
            "pmax": self.pmax,
            "dims": self.dims,
            "units": self.units,
            "tolerance_factor": self.tolerance_factor,
        }

    def random_point(self):
        r"""Return a random point in the region."""
        warnings.warn(
            "This method will be removed and should not be used anymore.",
            DeprecationWarning,
            stacklevel=2,
        )
        return tuple(np.random.random(self.ndim) * self.edges + self.pmin)
