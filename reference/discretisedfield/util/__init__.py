from .util import array2tuple as array2tuple
from .util import assemble_index as assemble_index
from .util import bergluescher_angle as bergluescher_angle
from .util import rescale_xarray as rescale_xarray
