import cmath

import numpy as np
import ubermagutil.units as uu


def array2tuple(array):
    return array.item() if array.size == 1 else tuple(array.tolist())


def bergluescher_angle(v1, v2, v3):
    if np.dot(v1, np.cross(v2, v3)) == 0:
        # If the triple product is zero, then rho=0 and division by zero is
        # encountered. In this case, all three vectors are in-plane and the
        # space angle is zero.
        return 0.0
    else:
        rho = (
            2 * (1 + np.dot(v1, v2)) * (1 + np.dot(v2, v3)) * (1 + np.dot(v3, v1))
        ) ** 0.5

        numerator = (
            1
            + np.dot(v1, v2)
            + np.dot(v2, v3)
            + np.dot(v3, v1)
            + 1j * (np.dot(v1, np.cross(v2, v3)))
        )

        exp_omega = numerator / rho

        return 2 * cmath.log(exp_omega).imag / (4 * np.pi)


def assemble_index(value, n, dictionary):
    index = [value] * n
    for key, value in dictionary.items():
        index[key] = value

    return tuple(index)


def rescale_xarray(array, multiplier):
    """Rescale xarray dimensions."""
    if multiplier == 1:
        return array
    prefix = uu.rsi_prefixes[multiplier]
    try:
        units = [array[i].units for i in "xyz"]
    except AttributeError:
        units = None
    array = array.assign_coords({i: array[i] / multiplier for i in "xyz"})
    if units:
        for i, unit in zip("xyz", units):
            array[i].attrs["units"] = prefix + unit
    return array
