"""Finite-difference fields."""

import importlib.metadata
import pathlib

import matplotlib.pyplot as plt
import pytest

from . import tools as tools
from .field import Field as Field
from .field_rotator import FieldRotator as FieldRotator
from .interact import interact as interact
from .line import Line as Line
from .mesh import Mesh as Mesh
from .operators import integrate as integrate
from .region import Region as Region

# Enable default plotting style.
plt.style.use(pathlib.Path(__file__).parent / "plotting" / "plotting-style.mplstyle")

__version__ = importlib.metadata.version(__package__)


def test():
    """Run all package tests.

    Examples
    --------
    1. Run all tests.

    >>> import discretisedfield as df
    ...
    >>> # df.test()

    """
    return pytest.main(["-v", "--pyargs", "discretisedfield", "-l"])  # pragma: no cover
