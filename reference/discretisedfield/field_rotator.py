import warnings

import numpy as np
from scipy.interpolate import RegularGridInterpolator
from scipy.spatial.transform import Rotation

import discretisedfield as df
from . import html


class FieldRotator:
    r"""Rotate a field.

    This class can be used to rotate a ``field`` object. During rotation a new
    region and mesh are constructed and ``field`` values are interpolated onto
    the new mesh. Multiple consecutive rotations are possible without
    additional numerical errors. Rotation always starts from the initial
    unrotated field.

    Periodic boundary conditions have no effect.

    Parameters
    ----------
    field : discretisedfield.Field
        Field to rotate.

    Examples
    --------
    >>> import discretisedfield as df
    >>> from math import pi

    Create a ``field`` to rotate.

    >>> region = df.Region(p1=(0, 0, 0), p2=(20, 10, 2))
    >>> mesh = df.Mesh(region=region, cell=(1, 1, 1))
    >>> field = df.Field(mesh, nvdim=3, value=(0, 0, 1))
    >>> field.mesh.n
    array([20, 10,  2])

    Create a ``FieldRotator`` object for the ``field``.

    >>> field_rotator = df.FieldRotator(field)

    Rotate the ``field``.

    >>> field_rotator.rotate('from_euler', seq='x', angles=pi/2)

    Access the rotated field.

    >>> field_rotator.field
    Field(...)
    >>> field_rotator.field.mesh.n
    array([20,  2, 10])

    Apply a second rotation.

    >>> field_rotator.rotate('from_euler', seq='z', angles=pi/2)
    >>> field_rotator.field.mesh.n
    array([ 2, 20, 10])

    """

    def __init__(self, field):
        if field.nvdim not in [1, 3]:
            raise ValueError(
                f"Rotations are not supported for fields with {field.nvdim=}."
            )
        if field.mesh.region.ndim != 3:
            raise ValueError(
                "Field rotator can only be used on field defined on three spatial"
                f" dimensions not with {field.mesh.region.ndim=}."
            )

        if field.nvdim > 1:
            for vdim in field.vdims:
                if vdim not in field.vdim_mapping:
                    raise ValueError(
                        f"Cannot compute rotations for field as {vdim} is not present"
                        f" in{field.vdim_mapping=}."
                    )
                elif field.vdim_mapping[vdim] not in field.mesh.region.dims:
                    raise ValueError(
                        "Cannot compute rotations for field as"
                        f" {field.vdim_mapping[vdim]}is not present in"
                        f" {field.mesh.region.dims=}."
                    )

        if field.mesh.bc != "":
            warnings.warn(
                "Boundary conditions are lost when rotating the field.", stacklevel=2
            )
        self._orig_field = field
        # set up state without rotations
        self.clear_rotation()

    @property
    def field(self):
        """Rotated field."""
        return self._rotated_field

    def rotate(self, method, /, *args, n=None, **kwargs):
        """Rotate the field.

        Rotate the field using the given ``method``. The definition of the
        rotation is based on ``scipy.spatial.transform.Rotation``. Additional
        parameters required for the different possible rotation methods must be
        specified following to the ``scipy`` documentation. These are passed
        directly to the relevant ``scipy`` function. For a detailed explanation
        and required arguments of the different methods please refer directly
        to the ``scipy`` documentation.

        The only method that differs from ``scipy`` is ``align_vector``. This
        method expects two keyword arguments ``initial`` and ``final``
        (array-like, 3). This method rotates the vector ``initial`` to the
        vector ``final``, the cross product is kept fixed, i.e. it defines the
        rotation vector.


        The rotation of the field consists of three steps, rotation of the
        region, remeshing, and rotation + interpolation of the field values.
        Rotation of the region produces as new, larger region for the new
        field. If ``n`` is not specified remeshing is done automatically and
        the cell volume is kept mostly constant. Interpolation of the field
        values is done using linear interpolation. For more details on the
        rotation process please refer to the detailed documentation notebook.


        Parameters
        ----------
        method : str
            Rotation method. One of ``'from_quat'``, ``'from_matrix'``,
            ``'from_rotvec'``, ``'from_mpr'``, ``'from_euler'``, or
            ``'align_vector'``.

        args
            Additional positional arguments for the rotation method.

        n : array-like, 3, optional
            Number of cells in the new mesh. If not specified ``n`` is chosen
            automatically to keep the cell volume mostly constant. Defaults to
            ``None``.

        kwargs
            Additional keyword arguments for the rotation method.

        Examples
        --------
        >>> import discretisedfield as df
        >>> from math import pi
        >>> region = df.Region(p1=(0, 0, 0), p2=(20, 10, 2))
        >>> mesh = df.Mesh(region=region, cell=(1, 1, 1))
        >>> field = df.Field(mesh, nvdim=3, value=(0, 0, 1))
        >>> field_rotator = df.FieldRotator(field)
        >>> field_rotator.rotate('from_euler', seq='x', angles=pi/2)

        """
        # create rotation object
        if method in [
            "from_quat",
            "from_matrix",
            "from_rotvec",
            "from_mrp",
            "from_euler",
        ]:
            rotation = getattr(Rotation, method)(*args, **kwargs)
        elif method == "align_vector":
            initial = kwargs["initial"]
            final = kwargs["final"]
            fixed = np.cross(initial, final)
            rotation = Rotation.align_vectors([final, fixed], [initial, fixed])[0]
        else:
            msg = f"Method {method} is unknown."
            raise ValueError(msg)

        # Multiplication from left is important
        self._rotation = rotation * self._rotation

        new_region = self._calculate_new_region()

        if n is None:
            n = self._calculate_new_n(new_region)

        new_mesh = df.Mesh(region=new_region, n=n)

        # Rotate Field vectors
        if self._orig_field.nvdim == 1:
            rot_field = self._orig_field.array
        elif self._orig_field.nvdim == 3:
            ordered_idx = np.array(
                [
                    self._orig_field.vdims.index(self._orig_field._r_dim_mapping[dim])
                    for dim in self._orig_field.mesh.region.dims
                ]
            )
            array = self._orig_field.array.reshape((-1, self._orig_field.nvdim))[
                ..., ordered_idx
            ]
            rot_field = self._rotation.apply(array).reshape(
                (*self._orig_field.mesh.n, self._orig_field.nvdim)
            )[..., ordered_idx.argsort()]

        # Calculate field at new mesh positions
        new_m = self._map_and_interpolate(new_mesh, rot_field)

        self._rotated_field = df.Field(
            mesh=new_mesh,
            nvdim=self._orig_field.nvdim,
            value=new_m,
            vdims=self._orig_field.vdims,
            vdim_mapping=self._orig_field.vdim_mapping,
        )

    def clear_rotation(self):
        """Remove all rotations."""
        self._rotation = Rotation.from_matrix(np.eye(3))
        self._rotated_field = self._orig_field

    def __repr__(self):
        """Representation string.

        Internally `self._repr_html_()` is called and all html tags are removed
        from this string.

        Returns
        -------
        str

            Representation string.

        Example
        -------
        1. Getting representation string.

        >>> import discretisedfield as df
        ...
        >>> p1 = (0, 0, 0)
        >>> p2 = (2, 2, 1)
        >>> cell = (1, 1, 1)
        >>> mesh = df.Mesh(p1=p1, p2=p2, cell=cell)
        ...
        >>> field = df.Field(mesh, nvdim=1, value=1)
        >>> rotator = df.FieldRotator(field)
        >>> rotator
        FieldRotator(...)

        """
        return html.strip_tags(self._repr_html_())

    def _repr_html_(self):
        """Show HTML-based representation in Jupyter notebook."""
        return html.get_template("field_rotator").render(
            field=self._orig_field, rotation_quat=self._rotation.as_quat()
        )

    def _map_and_interpolate(self, new_mesh, rot_field):
        new_mesh_field = df.Field(mesh=new_mesh, nvdim=3, value=lambda x: x)
        new_mesh_pos = (
            new_mesh_field.array.reshape((-1, 3)) - self._orig_field.mesh.region.center
        )

        new_pos_old_mesh = self._rotation.inv().apply(new_mesh_pos)

        # Get values of field at new mesh locations
        result = np.ndarray(shape=[*new_mesh_field.mesh.n, self._orig_field.nvdim])
        for i in range(self._orig_field.nvdim):
            result[..., i] = self._create_interpolation_funcs(rot_field[..., i])(
                new_pos_old_mesh
            ).reshape(new_mesh.n)
        return result

    def _create_interpolation_funcs(self, rot_field_component):
        pmin = np.array(self._orig_field.mesh.region.pmin)
        pmax = np.array(self._orig_field.mesh.region.pmax)
        cell = np.array(self._orig_field.mesh.cell)

        coords = []
        tol = 1e-9  # to avoid numerical errors at the sample boundaries
        for i in range(3):
            coords.append(
                np.array(
                    [
                        pmin[i] - cell[i] * tol,
                        *np.linspace(
                            pmin[i] + cell[i] / 2,
                            pmax[i] - cell[i] / 2,
                            self._orig_field.mesh.n[i],
                        ),
                        # *rot_field.mesh.coordinates[i],
                        pmax[i] + cell[i] * tol,
                    ]
                )
                - self._orig_field.mesh.region.center[i]
            )

        m = np.pad(rot_field_component, pad_width=[(1, 1), (1, 1), (1, 1)], mode="edge")

        return RegularGridInterpolator(coords, m, fill_value=0, bounds_error=False)

    def _calculate_new_n(self, new_region):
        cell_edges = np.eye(3) * self._orig_field.mesh.cell
        rotated_cell_edges = abs(self._rotation.apply(cell_edges))
        rotated_edge_lenths = np.sum(rotated_cell_edges, axis=0)

        new_vol = np.prod(rotated_edge_lenths)
        adjust = (self._orig_field.mesh.dV / new_vol) ** (1 / 3)
        return (
            np.round(np.divide(new_region.edges, rotated_edge_lenths * adjust))
            .astype(int)
            .tolist()
        )

    def _calculate_new_region(self):
        edges = np.eye(3) * self._orig_field.mesh.region.edges
        rotated_edges = abs(self._rotation.apply(edges))
        edge_centre_length = np.sum(rotated_edges, axis=0) / 2
        return df.Region(
            p1=(self._orig_field.mesh.region.center - edge_centre_length),
            p2=(self._orig_field.mesh.region.center + edge_centre_length),
        )
