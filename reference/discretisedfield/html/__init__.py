import re

import jinja2


def get_template(name):
    """Return html template with the given name."""
    env = jinja2.Environment(
        loader=jinja2.PackageLoader("discretisedfield.html", "templates")
    )
    return env.get_template(name + ".jinja2")


def strip_tags(string):
    """Strip all html tags and convert lists."""
    string = re.sub(r"\s+", "", string)
    string = re.sub(r"<ul>", "(", string)
    string = re.sub(r"<li>", "", string)
    string = re.sub(r"</li></ul>", ")", string)
    string = re.sub(r"</li>", ",", string)
    string = re.sub(r"</?i>", "`", string)  # subregion names are italic
    string = re.sub(r"<[^<]+>", "", string)
    string = re.sub(r"([,:])", r"\1 ", string)
    return string
