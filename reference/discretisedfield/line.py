import numbers

import ipywidgets
import matplotlib.pyplot as plt
import numpy as np
import pandas as pd
import ubermagutil.typesystem as ts
import ubermagutil.units as uu


@ts.typesystem(
    dim=ts.Scalar(expected_type=int, positive=True, const=True),
    n=ts.Scalar(expected_type=int, positive=True, const=True),
)
class Line:
    """Line class.

    This class represents field sampled on the line. It is based on
    ``pandas.DataFrame``, which is generated from two lists: ``points`` and
    ``values`` of the same length. ``points`` is a list of ``array_like`` objects
    representing the points on the line on which the field was sampled. On the
    other hand, ``values`` is a list of field values, which are
    ``numbers.Real`` for scalar fields or ``array_like`` for vector fields.
    During the initialisation of the object, ``r`` column is added to
    ``pandas.DataFrame`` and it represents the distance of the point from the
    first point in ``points``.

    The names of the columns are set by passing ``point_columns`` and ``value_columns``
    lists. Both lists are composed of strings and must have appropriate lengths.

    The number of points can be retrieved as ``discretisedfield.Line.n`` and
    the dimension of the value can be retrieved using
    ``discretisedfield.Line.dim``.

    Data in the form of ``pandas.DataFrame`` can be exposed as ``line.data``.

    Parameters
    ----------
    points : list

        Points at which the field was sampled. It is a list of ``array_like``.

    values : list

        Values sampled at ``points``.

    point_columns : list

        Point column names.

    value_columns : list

        Value column names.

    Raises
    ------
    ValueError

        If the numbers of points is not the same as the number of values.

    Example
    -------
    1. Defining ``Line`` object, which contains scalar values.

    >>> import discretisedfield as df
    ...
    >>> points = [(0, 0, 0), (1, 0, 0), (2, 0, 0)]
    >>> values = [1, 2, 3]  # scalar values
    >>> line = df.Line(points=points,
    ...                values=values,
    ...                point_columns=["x", "y", "z"],
    ...                value_columns=["vx"])
    >>> line.n  # the number of points
    3
    >>> line.dim
    1

    2. Defining ``Line`` for vector values.

    >>> points = [(0, 0, 0), (1, 1, 1), (2, 2, 2), (3, 3, 3)]
    >>> values = [(0, 0, 1), (0, 0, 2), (0, 0, 3), (0, 0, 4)]  # vector values
    >>> line = df.Line(points=points,
    ...                values=values,
    ...                point_columns=["x", "y", "z"],
    ...                value_columns=["vx", "vy", "vz"])
    >>> line.n  # the number of points
    4
    >>> line.dim
    3

    """

    def __init__(self, points, values, point_columns, value_columns):
        if len(points) != len(values):
            msg = (
                f"The number of points ({len(points)}) must be the same "
                f"as the number of values ({len(values)})."
            )
            raise ValueError(msg)

        # Set the dimension (const descriptor).
        if isinstance(values[0], numbers.Complex):
            self.dim = 1
        else:
            self.dim = len(values[0])

        # Set the number of values (const descriptor).
        self.n = len(points)

        # points of a one-dimensional mesh are plain numbers: one column
        points = np.array(points).reshape((len(points), -1))
        values = np.array(values).reshape((points.shape[0], -1))

        self.data = pd.DataFrame()
        self.data["r"] = np.linalg.norm(points - points[0, :], axis=1)
        for i, column in enumerate(point_columns):
            self.data[column] = points[..., i]
        for i, column in zip(range(values.shape[-1]), value_columns):
            self.data[column] = values[..., i]

        # TODO this should be done in the setter
        self._point_columns = list(point_columns)
        self._value_columns = list(value_columns)

    @property
    def point_columns(self):
        """The names of point columns.

        This method returns a list of strings denoting the names of columns
        storing three coordinates of points. Similarly, by assigning a list of
        strings to this property, the columns can be renamed.

        Parameters
        ----------
        val : list

            Point column names used to rename them.

        Returns
        -------
        list

            List of point column names.

        Raises
        ------
        ValueError

            If a list of inappropriate length is passed.

        Examples
        --------
        1. Getting and setting the column names.

        >>> import discretisedfield as df
        ...
        >>> points = [(0, 0, 0), (1, 0, 0), (2, 0, 0)]
        >>> values = [1, 2, 3]  # scalar values
        >>> line = df.Line(points=points,
        ...                values=values,
        ...                point_columns=["px", "py", "pz"],
        ...                value_columns=["v"])
        >>> line.point_columns
        ['px', 'py', 'pz']
        >>> line.point_columns = ['p0', 'p1', 'p2']
        >>> line.data.columns
        Index(['r', 'p0', 'p1', 'p2', 'v'], dtype='object')

        """
        return self._point_columns

    @point_columns.setter
    def point_columns(self, val):
        if len(val) != 3:
            msg = f"Cannot change column names with a list of lenght {len(val)}."
            raise ValueError(msg)

        self.data = self.data.rename(dict(zip(self.point_columns, val)), axis=1)
        self._point_columns = list(val)

    @property
    def value_columns(self):
        """The names of value columns.

        This method returns a list of strings denoting the names of columns
        storing values. The length of the list is the same as the dimension of
        the value. Similarly, by assigning a list of strings to this property,
        the columns can be renamed.

        Parameters
        ----------
        val : list

            Value column names used to rename them.

        Returns
        -------
        list

            List of value column names.

        Raises
        ------
        ValueError

            If a list of inappropriate length is passed.

        Examples
        --------
        1. Getting and setting the column names.

        >>> import discretisedfield as df
        ...
        >>> points = [(0, 0, 0), (1, 0, 0), (2, 0, 0)]
        >>> values = [1, 2, 3]  # scalar values
        >>> line = df.Line(points=points,
        ...                values=values,
        ...                point_columns=["px", "py", "pz"],
        ...                value_columns=["v"])
        >>> line.value_columns
        ['v']
        >>> line.value_columns = ['my_interesting_value']
        >>> line.data.columns
        Index(['r', 'px', 'py', 'pz', 'my_interesting_value'], dtype='object')

        """
        return self._value_columns

    @value_columns.setter
    def value_columns(self, val):
        if len(val) != self.dim:
            msg = f"Cannot change column names with a list of lenght {len(val)}."
            raise ValueError(msg)

        self.data = self.data.rename(dict(zip(self.value_columns, val)), axis=1)
        self._value_columns = list(val)

    @property
    def length(self):
        """Line length.

        Length of the line is defined as the distance between the first and the
        last point in ``points``.

        Returns
        -------
        float

            Line length.

        Example
        -------
        1. Getting the length of the line.

        >>> import discretisedfield as df
        ...
        >>> points = [(0, 0, 0), (2, 0, 0), (4, 0, 0)]
        >>> values = [(1, 0, 0), (0, 1, 0), (0, 0, 1)]  # vector values
        >>> line = df.Line(points=points,
        ...                values=values,
        ...                point_columns=["x", "y", "z"],
        ...                value_columns=["vx", "vy", "vz"])
        >>> line.length
        4.0

        """
        return self.data["r"].iloc[-1].item()

    def __repr__(self):
        """Representation string.

        Returns
        -------
        str

            Representation string.

        Example
        -------
        1. Getting representation string.

        >>> import discretisedfield as df
        ...
        >>> points = [(0, 0, 0), (2, 0, 0), (4, 0, 0)]
        >>> values = [(1, 0, 0), (0, 1, 0), (0, 0, 1)]  # vector values
        >>> line = df.Line(points=points,
        ...                values=values,
        ...                point_columns=["x1", "x2", "x3"],
        ...                value_columns=["v1", "v2", "v3"])
        >>> repr(line)
        '...

        """
        return repr(self.data)

    def mpl(
        self,
        ax=None,
        figsize=None,
        yaxis=None,
        xlim=None,
        multiplier=None,
        filename=None,
        **kwargs,
    ):
        """Line values plot.

        This method plots the values (scalar or individual components) as a
        function of the distance ``r``. ``mpl`` adds the plot to
        ``matplotlib.axes.Axes`` passed via ``ax`` argument. If ``ax`` is not
        passed, ``matplotlib.axes.Axes`` object is created automatically and
        the size of a figure can be specified using ``figsize``. To choose
        particular value columns to be plotted ``yaxis`` can be passed as a
        list of column names. The range of ``r`` values on the horizontal axis
        can be defined by passing a lenth-2 tuple to ``xlim``. It is often the case that
        the line length is small (e.g. on a nanoscale) or very large (e.g. in
        units of kilometers). Accordingly, ``multiplier`` can be passed as
        :math:`10^{n}`, where :math:`n` is a multiple of 3  (..., -6, -3, 0, 3,
        6,...). According to that value, the horizontal axis will be scaled and
        appropriate units shown. For instance, if ``multiplier=1e-9`` is
        passed, all mesh points will be divided by :math:`1\\,\\text{nm}` and
        :math:`\\text{nm}` units will be used as axis labels. If ``multiplier``
        is not passed, the best one is calculated internally. The plot can be
        saved as a PDF when ``filename`` is passed.

        This method plots the mesh using ``matplotlib.pyplot.plot()`` function,
        so any keyword arguments accepted by it can be passed.

        Parameters
        ----------
        ax : matplotlib.axes.Axes, optional

            Axes to which the field plot is added. Defaults to ``None`` - axes
            are created internally.

        figsize : tuple, optional

            The size of a created figure if ``ax`` is not passed. Defaults to
            ``None``.

        yaxis : list, optional

            A list of value columns to be plotted.

        xlim : tuple

            A length-2 tuple setting the limits of the horizontal axis.

        multiplier : numbers.Real, optional

            ``multiplier`` can be passed as :math:`10^{n}`, where :math:`n` is
            a multiple of 3 (..., -6, -3, 0, 3, 6,...). According to that
            value, the axes will be scaled and appropriate units shown. For
            instance, if ``multiplier=1e-9`` is passed, the mesh points will be
            divided by :math:`1\\,\\text{nm}` and :math:`\\text{nm}` units will
            be used as axis labels. Defaults to ``None``.

        filename : str, optional

            If filename is passed, the plot is saved. Defaults to ``None``.

        Examples
        --------
        1. Visualising the values on the line using ``matplotlib``.

        >>> import discretisedfield as df
        ...
        >>> points = [(0, 0, 0), (2, 0, 0), (4, 0, 0)]
        >>> values = [(1, 0, 0), (0, 1, 0), (0, 0, 1)]  # vector values
        >>> line = df.Line(points=points,
        ...                values=values,
        ...                point_columns=["x", "y", "z"],
        ...                value_columns=["v1", "v2", "v3"])
        >>> line.mpl()

        """
        if ax is None:
            fig = plt.figure(figsize=figsize)
            ax = fig.add_subplot(111)

        if multiplier is None:
            multiplier = uu.si_multiplier(self.length)

        if yaxis is None:
            yaxis = self.value_columns

        for i in yaxis:
            ax.plot(
                np.divide(self.data["r"].to_numpy(), multiplier),
                self.data[i],
                label=i,
                **kwargs,
            )

        ax.set_xlabel(f"r ({uu.rsi_prefixes[multiplier]}m)")
        ax.set_ylabel("value")

        ax.grid(True)  # grid is turned off by default for field plots
        ax.legend()

        if xlim is not None:
            plt.xlim(*np.divide(xlim, multiplier))

        if filename is not None:
            plt.savefig(filename, bbox_inches="tight", pad_inches=0)

    def slider(self, multiplier=None, **kwargs):
        """Slider for interactive plotting.

        Based on the values in the ``r`` column,
        ``ipywidgets.SelectionRangeSlider`` is returned for navigating
        interactive plots.

        This method is based on ``ipywidgets.SelectionRangeSlider``, so any
        keyword argument accepted by it can be passed.

        Parameters
        ----------
        multiplier : numbers.Real, optional

            ``multiplier`` can be passed as :math:`10^{n}`, where :math:`n` is
            a multiple of 3 (..., -6, -3, 0, 3, 6,...). According to that
            value, the values will be scaled and appropriate units shown. For
            instance, if ``multiplier=1e-9`` is passed, the slider points will
            be divided by :math:`1\\,\\text{nm}` and :math:`\\text{nm}` units
            will be used in the description. If ``multiplier`` is not passed,
            the optimum one is computed internally. Defaults to ``None``.

        Returns
        -------
        ipywidgets.SelectionRangeSlider

            ``r`` range slider.

        Example
        -------
        1. Get the slider for the horizontal axis.

        >>> import discretisedfield as df
        ...
        >>> points = [(0, 0, 0), (2, 0, 0), (4, 0, 0)]
        >>> values = [(1, 0, 0), (0, 1, 0), (0, 0, 1)]  # vector values
        >>> line = df.Line(points=points,
        ...                values=values,
        ...                point_columns=["x", "y", "z"],
        ...                value_columns=["x", "y", "z"])
        >>> line.slider()
        SelectionRangeSlider(...)

        """
        if multiplier is None:
            multiplier = uu.si_multiplier(self.length)

        values = self.data["r"].to_numpy()
        labels = np.around(values / multiplier, decimals=2)
        options = list(zip(labels, values))
        slider_description = f"r ({uu.rsi_prefixes[multiplier]}m):"

        return ipywidgets.SelectionRangeSlider(
            options=options,
            value=(values[0], values[-1]),
            description=slider_description,
            **kwargs,
        )

    def selector(self, **kwargs):
        """Selection list for interactive plotting.

        Based on the value columns, ``ipywidgets.SelectMultiple`` widget is
        returned for selecting the value columns to be plotted.

        This method is based on ``ipywidgets.SelectMultiple``, so any
        keyword argument accepted by it can be passed.

        Returns
        -------
        ipywidgets.SelectMultiple

            Selection list.

        Example
        -------
        1. Get the widget for selecting value columns.

        >>> import discretisedfield as df
        ...
        >>> points = [(0, 0, 0), (2, 0, 0), (4, 0, 0)]
        >>> values = [(1, 0, 0), (0, 1, 0), (0, 0, 1)]  # vector values
        >>> line = df.Line(points=points,
        ...                values=values,
        ...                point_columns=["px", "py", "pz"],
        ...                value_columns=["vx", "vy", "vz"])
        >>> line.selector()
        SelectMultiple(...)

        """
        return ipywidgets.SelectMultiple(
            options=self.value_columns,
            value=self.value_columns,
            rows=3,
            description="y-axis:",
            disabled=False,
            **kwargs,
        )
