import collections
import functools
import numbers

import numpy as np
import scipy.fft as spfft
import xarray as xr
from vtkmodules.util import numpy_support as vns
from vtkmodules.vtkCommonDataModel import vtkRectilinearGrid

import discretisedfield as df
import discretisedfield.plotting as dfp
import discretisedfield.util as dfu
from . import html
from .io import _FieldIO
from discretisedfield.operators import _split_diff_combine
from discretisedfield.plotting.util import hv_key_dim

# TODO: tutorials, line operations


class Field(_FieldIO):
    """Finite-difference field.

    This class specifies a finite-difference field and defines operations for
    its analysis and visualisation. The field is defined on a finite-difference
    mesh (`discretisedfield.Mesh`) passed using ``mesh``. Another value that
    must be passed is the dimension of the field's value using ``nvdim``. For
    instance, for a scalar field, ``nvdim=1`` and for a three-dimensional vector
    field ``nvdim=3`` must be passed. The value of the field can be set by
    passing ``value``. For details on how the value can be defined, refer to
    ``discretisedfield.Field.value``. Similarly, if the field has ``nvdim>1``,
    the field can be normalised by passing ``norm``. For details on setting the
    norm, please refer to ``discretisedfield.Field.norm``.

    Parameters
    ----------
    mesh : discretisedfield.Mesh

        Finite-difference rectangular mesh.

    nvdim : int

        Number of Value dimensions of the field. For instance, if `nvdim=3` the field is
        a three-dimensional vector field and for `nvdim=1` the field is a scalar field.

    value : array_like, callable, dict, optional

        Please refer to ``discretisedfield.Field.value`` property. Defaults to
        0, meaning that if the value is not provided in the initialisation,
        "zero-field" will be defined.

    norm : numbers.Real, callable, optional

        Please refer to ``discretisedfield.Field.norm`` property. Defaults to
        ``None`` (``norm=None`` defines no norm).

    dtype : str, type, np.dtype, optional

        Data type of the underlying numpy array. If not specified the best data
        type is automatically determined if ``value`` is  array_like, for
        callable and dict ``value`` the numpy default (currently
        ``float64``) is used. Defaults to ``None``.

    unit : str, optional

        Physical unit of the field.

    valid : numpy.ndarray, str, optional

        Property used to mask invalid values of the field. Please refer to
        ``discretisedfield.Field.valid``. Defaults to ``True``.

    vdim_mapping : dict, optional

        Dictionary that maps value dimensions to the spatial dimensions. It defaults to
        the same as spatial dimensions if the number of value and spatial dimensions are
        the same, else it is empty.

    Examples
    --------
    1. Defining a uniform three-dimensional vector field on a nano-sized thin
    film.

    >>> import discretisedfield as df
    ...
    >>> p1 = (-50e-9, -25e-9, 0)
    >>> p2 = (50e-9, 25e-9, 5e-9)
    >>> cell = (1e-9, 1e-9, 0.1e-9)
    >>> mesh = df.Mesh(region=df.Region(p1=p1, p2=p2), cell=cell)
    >>> nvdim = 3
    >>> value = (0, 0, 1)
    ...
    >>> field = df.Field(mesh=mesh, nvdim=nvdim, value=value)
    >>> field
    Field(...)
    >>> field.mean()
    array([0., 0., 1.])

    2. Defining a scalar field.

    >>> p1 = (-10, -10, -10)
    >>> p2 = (10, 10, 10)
    >>> n = (1, 1, 1)
    >>> mesh = df.Mesh(p1=p1, p2=p2, n=n)
    >>> nvdim = 1
    >>> value = 3.14
    ...
    >>> field = df.Field(mesh=mesh, nvdim=nvdim, value=value)
    >>> field
    Field(...)
    >>> field.mean()
    array([3.14])

    3. Defining a uniform three-dimensional normalised vector field.

    >>> import discretisedfield as df
    ...
    >>> p1 = (-50e9, -25e9, 0)
    >>> p2 = (50e9, 25e9, 5e9)
    >>> cell = (1e9, 1e9, 0.1e9)
    >>> mesh = df.Mesh(region=df.Region(p1=p1, p2=p2), cell=cell)
    >>> nvdim = 3
    >>> value = (0, 0, 8)
    >>> norm = 1
    ...
    >>> field = df.Field(mesh=mesh, nvdim=nvdim, value=value, norm=norm)
    >>> field
    Field(...)
    >>> field.mean()
    array([0., 0., 1.])

    .. seealso:: :py:func:`~discretisedfield.Mesh`

    """

    __slots__ = [
        "_array",
        "_mesh",
        "_nvdim",
        "_unit",
        "_valid",
        "_vdim_mapping",
        "_vdims",
        "dtype",
    ]

    # removed attribute: new method/property
    # implemented in __getattr__
    # to exclude methods from tap completion and documentation
    _removed_attributes = {
        "average": "mean",
        "integral": "integrate",
        "project": "mean",
        "value": "update_field_values",
        "write": "to_file",  # method is in io.__init__
    }

    def __init__(
        self,
        mesh,
        nvdim=None,
        value=0.0,
        norm=None,
        vdims=None,
        dtype=None,
        unit=None,
        valid=True,
        vdim_mapping=None,
        **kwargs,
    ):
        if not isinstance(mesh, df.Mesh):
            raise TypeError("'mesh' must be of class discretisedfield.Mesh.")
        self._mesh = mesh

        if not isinstance(nvdim, numbers.Integral):
            raise TypeError("'nvdim' must be of type int.")
        elif nvdim < 1:
            raise ValueError("'nvdim' must be greater than zero.")
        self._nvdim = nvdim

        self.dtype = dtype

        self.unit = unit

        # This is required for correct initialisation when also using a
        # norm. The norm setter requires the norm property
        # (which requires valid). However, valid cannot be set
        # before the norm is set as the valid setter has the option
        # to set valid based on the norm.
        self.valid = True
        self.update_field_values(value)
        self.norm = norm
        self.valid = valid

        # required in here for correct initialisation:
        self._vdims = None  # the vdims setter reads self.vdims
        self._vdim_mapping = {}  # the vdims setter reads self.vdim_mapping
        self.vdims = vdims

        self.vdim_mapping = vdim_mapping

    @property
    def mesh(self):
        """The mesh on which the field is defined.

        Returns
        -------
        discretisedfield.Mesh

            The finite-difference rectangular mesh on which the field is defined.
        """
        return self._mesh

    @property
    def nvdim(self):
        """Number of value dimensions.

        Returns
        -------
        int

            Scalar fields have dimension 1, vector fields can have any dimension greater
            than 1.

        """
        return self._nvdim

    @property
    def unit(self):
        """Unit of the field.

        Returns
        -------
        str

            The unit of the field.
        """
        return self._unit

    @unit.setter
    def unit(self, unit):
        if unit is not None and not isinstance(unit, str):
            raise TypeError("'unit' must be of type str.")
        self._unit = unit

    def update_field_values(self, value):
        """Set field value representation.

        The value of the field can be set using a scalar value for ``nvdim=1``
        fields (e.g. ``field.update_field_values(3)``) or ``array_like`` value
        for ``nvdim>1`` fields (e.g. ``field.update_field_values((1, 2, 3))``).
        Alternatively, the value can be defined
        using a callable object, which takes a point tuple as an input argument
        and returns a value of appropriate dimension. Internally, callable
        object is called for every point in the mesh on which the field is
        defined. For instance, callable object can be a Python function or
        another ``discretisedfield.Field``. Finally, ``numpy.ndarray`` with
        shape ``(*self.mesh.n, nvdim)`` can be passed.

        Parameters
        ----------
        value : numbers.Real, array_like, callable, dict

            For scalar fields (``nvdim=1``) ``numbers.Real`` values are allowed.
            In the case of vector fields, ``array_like`` (list, tuple,
            numpy.ndarray) value with length equal to `nvdim` should be used.
            Finally, the value can also be a callable (e.g. Python function or
            another field), which for every coordinate in the mesh returns a
            valid value. If ``field.update_field_values(0)``, all values in the field
            will be set to zero independent of the field dimension.

            If subregions are defined value can be initialised with a dict.
            Allowed keys are names of all subregions and ``default``. Items
            must be either ``numbers.Real`` for ``nvdim=1`` or ``array_like``
            for ``nvdim=3``. If subregion names are missing, the value of
            ``default`` is used if given. If parts of the region are not
            contained within one subregion ``default`` is used if specified,
            else these values are set to 0.

        Raises
        ------
        ValueError

            If unsupported type is passed.

        Examples
        --------
        1. Different ways of setting the field value.

        >>> import discretisedfield as df
        ...
        >>> p1 = (0, 0, 0)
        >>> p2 = (2, 2, 1)
        >>> cell = (1, 1, 1)
        >>> mesh = df.Mesh(p1=p1, p2=p2, cell=cell)
        >>> value = (0, 0, 1)

        If value is not specified, zero-field is defined

        >>> field = df.Field(mesh=mesh, nvdim=3)
        >>> field.mean()
        array([0., 0., 0.])
        >>> field.update_field_values((0, 0, 1))
        >>> field.mean()
        array([0., 0., 1.])

        Setting the field value using a Python function (callable).

        >>> def value_function(point):
        ...     x, y, z = point
        ...     if x <= 1:
        ...         return (0, 0, 1)
        ...     else:
        ...         return (0, 0, -1)
        >>> field.update_field_values(value_function)
        >>> field((0.5, 1.5, 0.5))
        array([0., 0., 1.])
        >>> field((1.5, 1.5, 0.5))
        array([ 0.,  0., -1.])

        2. Field with subregions in mesh

        >>> import discretisedfield as df
        ...
        >>> p1 = (0,0,0)
        >>> p2 = (2,2,2)
        >>> cell = (1,1,1)
        >>> sub1 = df.Region(p1=(0,0,0), p2=(2,2,1))
        >>> sub2 = df.Region(p1=(0,0,1), p2=(2,2,2))
        >>> mesh = df.Mesh(p1=p1, p2=p2, cell=cell,\
                           subregions={'s1': sub1, 's2': sub2})
        >>> field = df.Field(mesh, nvdim=1, value={'s1': 1, 's2': 1})
        >>> (field.array == 1).all().item()
        True
        >>> field = df.Field(mesh, nvdim=1, value={'s1': 1})
        Traceback (most recent call last):
        ...
        KeyError: ...
        >>> field = df.Field(mesh, nvdim=1, value={'s1': 2, 'default': 1})
        >>> (field.array == 1).all().item()
        False
        >>> (field.array == 0).any().item()
        False
        >>> mesh = df.Mesh(p1=p1, p2=p2, cell=cell, subregions={'s': sub1})
        >>> field = df.Field(mesh, nvdim=1, value={'s': 1})
        Traceback (most recent call last):
        ...
        KeyError: ...
        >>> field = df.Field(mesh, nvdim=1, value={'default': 1})
        >>> (field.array == 1).all().item()
        True

        .. seealso:: :py:func:`~discretisedfield.Field.array`

        """
        self.array = self._as_array(value, self.mesh, self.nvdim, dtype=self.dtype)

    @property
    def vdims(self):
        """Vector components of the field."""
        return self._vdims

    @vdims.setter
    def vdims(self, vdims):
        if vdims is None:
            if 2 <= self.nvdim <= 3:
                vdims = ["x", "y", "z"][: self.nvdim]
            elif self.nvdim > 3:
                vdims = [f"v{i}" for i in range(self.nvdim)]
        elif not isinstance(vdims, (list, tuple, np.ndarray)) or any(
            not isinstance(vdim, str) for vdim in vdims
        ):
            raise TypeError(f"vdims must be a sequence of strings, not {type(vdims)=}.")
        elif len(vdims) == 0:
            vdims = None
        else:
            if len(vdims) != self.nvdim:
                raise ValueError(f"Number of vdims does not match {self.nvdim=}.")
            if len(vdims) != len(set(vdims)):
                raise ValueError("'vdims' must be unique.")
            for c in vdims:
                if hasattr(self, c) and (
                    self._vdims is None
                    or c not in self._vdims  # allow redefining component labels
                ):
                    raise ValueError(
                        f"Component name {c} is already "
                        "used by a different method/property."
                    )
            vdims = list(vdims)

        # setting vdim_mapping reads self.vdims -> self.vdims has to be updated before
        # updating self.vdim_mapping
        old_vdims = self._vdims
        self._vdims = vdims

        if len(self.vdim_mapping) > 0 and vdims is not None and old_vdims is not None:
            # update vdim mapping with new vdim names
            self.vdim_mapping = {
                new_vdim: self.vdim_mapping[old_vdim]
                for new_vdim, old_vdim in zip(vdims, old_vdims)
            }

    @property
    def array(self):
        """Field value as ``numpy.ndarray``.

        The shape of the array is ``(*mesh.n, nvdim)``.

        Parameters
        ----------
        array : numpy.ndarray

            Array with shape ``(*mesh.n, nvdim)``.

        Returns
        -------
        numpy.ndarray

            Field values array.

        Raises
        ------
        ValueError

            If unsupported type or shape is passed.

        Examples
        --------
        1. Accessing and setting the field array.

        >>> import discretisedfield as df
        >>> import numpy as np
        ...
        >>> p1 = (0, 0, 0)
        >>> p2 = (1, 1, 1)
        >>> cell = (0.5, 1, 1)
        >>> mesh = df.Mesh(p1=p1, p2=p2, cell=cell)
        >>> value = (0, 0, 1)
        ...
        >>> field = df.Field(mesh=mesh, nvdim=3, value=value)
        >>> field.array
        array(...)
        >>> field.mean()
        array([0., 0., 1.])
        >>> field.array.shape
        (2, 1, 1, 3)
        >>> field.array = np.ones_like(field.array)
        >>> field.array
        array(...)
        >>> field.mean()
        array([1., 1., 1.])

        """
        return self._array

    @array.setter
    def array(self, val):
        self._array = self._as_array(val, self.mesh, self.nvdim, dtype=self.dtype)

    @property
    def norm(self):
        """Norm of the field.

        Computes the norm of the field and returns ``discretisedfield.Field``
        with ``nvdim=1``. Norm of a scalar field is interpreted as an absolute
        value of the field.

        The field norm can be set by passing ``numbers.Real``,
        ``numpy.ndarray``, or callable. If the field contains zero values, norm
        cannot be set and ``ValueError`` is raised.

        Parameters
        ----------
        numbers.Real, numpy.ndarray, callable

            Norm value.

        Returns
        -------
        discretisedfield.Field

            Norm of the field.

        Raises
        ------
        ValueError

            If the norm is set with wrong type, shape, or value. In addition,
            if the field contains zero values.

        Examples
        --------
        1. Manipulating the field norm.

        >>> import discretisedfield as df
        ...
        >>> p1 = (0, 0, 0)
        >>> p2 = (1, 1, 1)
        >>> cell = (1, 1, 1)
        >>> mesh = df.Mesh(region=df.Region(p1=p1, p2=p2), cell=cell)
        ...
        >>> field = df.Field(mesh=mesh, nvdim=3, value=(0, 0, 1))
        >>> field.norm
        Field(...)
        >>> field.norm.mean()
        array([1.])
        >>> field.norm = 2
        >>> field.mean()
        array([0., 0., 2.])
        >>> field.update_field_values((1, 0, 0))
        >>> field.norm.mean()
        array([1.])

        Set the norm for a zero field.
        >>> field.update_field_values(0)
        >>> field.mean()
        array([0., 0., 0.])
        >>> field.norm = 1
        >>> field.mean()
        array([0., 0., 0.])

        .. seealso:: :py:func:`~discretisedfield.Field.__abs__`

        """
        res = np.linalg.norm(self.array, axis=-1, keepdims=True)

        return self.__class__(
            self.mesh, nvdim=1, value=res, unit=self.unit, valid=self.valid
        )

    @norm.setter
    def norm(self, val):
        if val is not None:
            self.array = np.divide(
                self.array,
                self.norm.array,
                out=np.zeros_like(self.array),
                where=self.norm.array != 0.0,
            )
            self.array *= self._as_array(val, self.mesh, nvdim=1, dtype=None)

    @property
    def valid(self):
        """Valid field values.

        This property is used to mask invalid field values.
        This can be achieved by passing ``numpy.ndarray`` of
        the same shape as the field array with boolean values,
        the string ``"norm"`` (which masks zero values), or
        None (which sets all values to True).

        """
        return self._valid

    @valid.setter
    def valid(self, valid):
        if valid is not None:
            if isinstance(valid, str) and valid == "norm":
                valid = ~np.isclose(self.norm.array, 0)
        else:
            valid = True
        # Using self._as_array creates an array with shape (*mesh.n, 1).
        # We only want a shape of mesh.n so we can directly use it
        # to index field.array i.e. field.array[field.valid].
        self._valid = self._as_array(valid, self.mesh, nvdim=1, dtype=bool)[..., 0]

    @property
    def _valid_as_field(self):
        return self.__class__(self.mesh, nvdim=1, value=self.valid, dtype=bool)

    @property
    def vdim_mapping(self):
        """Map vdims to dims."""
        return self._vdim_mapping

    @vdim_mapping.setter
    def vdim_mapping(self, vdim_mapping):
        if vdim_mapping is None:
            if self.nvdim == 1:
                vdim_mapping = {}
            elif self.nvdim == self.mesh.region.ndim:
                vdim_mapping = dict(zip(self.vdims, self.mesh.region.dims))
            else:
                vdim_mapping = {}
        elif not isinstance(vdim_mapping, dict):
            raise TypeError(f"Invalid {type(vdim_mapping)=}; must be of type 'dict'.")
        elif len(vdim_mapping) == 1 and self.nvdim == 1 and self.vdims is None:
            # no mapping for scalar fields unless vdims is set manually
            # (there is no default vdims for scalar fields)
            vdim_mapping = {}
        elif len(vdim_mapping) > 0 and sorted(vdim_mapping) != sorted(self.vdims):
            raise ValueError(
                f"Invalid {vdim_mapping.keys()=}; keys must be {self.vdims}."
            )

        self._vdim_mapping = vdim_mapping

    @property
    def _r_dim_mapping(self):
        """Map dims to vdims."""
        reversed_mapping = {val: key for key, val in self.vdim_mapping.items()}
        return {dim: reversed_mapping.get(dim) for dim in self.mesh.region.dims}

    def __abs__(self):
        """Absolute value of the field.

        This is a convenience operator and it returns
        absolute value of the field.

        Returns
        -------
        discretisedfield.Field

            Absolute value of the field.

        Examples
        --------
        1. Computing the absolute value of a scalar field.

        >>> import discretisedfield as df
        ...
        >>> p1 = (0, 0, 0)
        >>> p2 = (5, 10, 13)
        >>> cell = (1, 1, 1)
        >>> mesh = df.Mesh(region=df.Region(p1=p1, p2=p2), cell=cell)
        ...
        >>> field = df.Field(mesh=mesh, nvdim=1, value=-5)
        >>> abs(field).mean()
        array([5.])

        .. seealso:: :py:func:`~discretisedfield.Field.norm`

        """
        return self.__class__(
            self.mesh,
            nvdim=self.nvdim,
            value=np.abs(self.array),
            vdims=self.vdims,
            unit=self.unit,
            valid=self.valid,
            vdim_mapping=self.vdim_mapping,
        )

    @property
    def orientation(self):
        """Orientation field.

        This method computes the orientation (direction) of a vector field and
        returns ``discretisedfield.Field`` with the same dimension. More
        precisely, at every mesh discretisation cell, the vector is divided by
        its norm, so that a unit vector is obtained. However, if the vector at
        a discretisation cell is a zero-vector, it remains unchanged. In the
        case of a scalar (``nvdim=1``) field, ``ValueError`` is raised.

        Returns
        -------
        discretisedfield.Field

            Orientation field.


        Examples
        --------
        1. Computing the orientation field.

        >>> import discretisedfield as df
        ...
        >>> p1 = (0, 0, 0)
        >>> p2 = (10, 10, 10)
        >>> cell = (1, 1, 1)
        >>> mesh = df.Mesh(p1=p1, p2=p2, cell=cell)
        ...
        >>> field = df.Field(mesh=mesh, nvdim=3, value=(6, 0, 8))
        >>> field.orientation
        Field(...)
        >>> field.orientation.norm.mean()
        array([1.])

        """

        orientation_array = np.divide(
            self.array,
            self.norm.array,
            where=np.invert(np.isclose(self.norm.array, 0)),
            out=np.zeros_like(self.array),
        )
        return self.__class__(
            self.mesh,
            nvdim=self.nvdim,
            value=orientation_array,
            vdims=self.vdims,
            valid=self.valid,
            vdim_mapping=self.vdim_mapping,
        )

    def mean(self, direction=None):
        """Field mean.

        It computes the arithmetic mean along the specified direction of the field.

        It returns a numpy array containing the mean value if all the geometrical
        directions or none are selected. If one or more than one directions (and less
        than ``region.dims``) are selected, the method returns a field of appropriate
        geometric dimensions with the calculated mean value.


        Parameters
        ----------
        direction : None, string or tuple of strings, optional.

            Directions along which
            the mean is computed. The default is to
            compute the mean of the entire volume and return an array of the
            averaged vector components.


        Returns
        -------
        numpy.ndarray

            Field average along all the geometrical directions combined.

        discretisedfield.Field

            Field of reduced geometrical dimensions holding the mean value along the
            selected direction(s).

        Examples
        --------
        1. Computing the vector field average.

        >>> import discretisedfield as df
        ...
        >>> p1 = (0, 0, 0)
        >>> p2 = (5, 5, 5)
        >>> cell = (1, 1, 1)
        >>> mesh = df.Mesh(p1=p1, p2=p2, cell=cell)
        ...
        >>> field = df.Field(mesh=mesh, nvdim=3, value=(0, 0, 1))
        >>> field.mean()
        array([0., 0., 1.])

        2. Computing the scalar field average.

        >>> field = df.Field(mesh=mesh, nvdim=1, value=55)
        >>> field.mean()
        array([55.])

        3. Computing the vector field mean along x direction.

        >>> import discretisedfield as df
        ...
        >>> p1 = (0, 0, 0)
        >>> p2 = (5, 5, 5)
        >>> cell = (1, 1, 1)
        >>> mesh = df.Mesh(p1=p1, p2=p2, cell=cell)
        ...
        >>> field = df.Field(mesh=mesh, nvdim=3, value=(0, 0, 1))
        >>> field.mean(direction='x')((0.5, 0.5))
        array([0., 0., 1.])

        4. Computing the vector field mean along x and y directions.

        >>> import discretisedfield as df
        ...
        >>> p1 = (0, 0, 0)
        >>> p2 = (5, 5, 5)
        >>> cell = (1, 1, 1)
        >>> mesh = df.Mesh(p1=p1, p2=p2, cell=cell)
        ...
        >>> field = df.Field(mesh=mesh, nvdim=3, value=(0, 0, 1))
        >>> field.mean(direction=['x', 'y'])(0.5)
        array([0., 0., 1.])

        """
        # Mean over all directions implicitly.
        if direction is None:
            return self.array.mean(axis=tuple(range(self.mesh.region.ndim)))
        elif isinstance(direction, (tuple, list)):
            if len(direction) != len(set(direction)):
                raise ValueError("Duplicate directions are not allowed.")
            # Mean over all directions explicitly.
            if sorted(direction) == sorted(self.mesh.region.dims):
                return self.array.mean(axis=tuple(range(self.mesh.region.ndim)))
            else:
                # Multiple directions mean
                mesh = self.mesh
                axis = np.zeros(len(direction), dtype=int)
                for i, d in enumerate(direction):
                    mesh = mesh.sel(d)
                    axis[i] = self.mesh.region._dim2index(d)
                array = self.array.mean(axis=tuple(axis))
                return self.__class__(
                    mesh,
                    nvdim=self.nvdim,
                    value=array,
                    unit=self.unit,
                    vdims=self.vdims,
                    vdim_mapping=self.vdim_mapping,
                )
        elif isinstance(direction, str):
            axis = self.mesh.region._dim2index(direction)
            return self.__class__(
                self.mesh.sel(direction),
                nvdim=self.nvdim,
                value=self.array.mean(axis=axis),
                vdims=self.vdims,
                unit=self.unit,
                vdim_mapping=self.vdim_mapping,
            )
        else:
            raise ValueError(
                "Direction must be None, string or tuple of strings, not"
                f" {type(direction)}."
            )

    def __repr__(self):
        """Representation string.

        Internally `self._repr_html_()` is called and all html tags are removed
        from this string.

        Returns
        -------
        str

            Representation string.

        Example
        -------
        1. Getting representation string.

        >>> import discretisedfield as df
        ...
        >>> p1 = (0, 0, 0)
        >>> p2 = (2, 2, 1)
        >>> cell = (1, 1, 1)
        >>> mesh = df.Mesh(p1=p1, p2=p2, cell=cell)
        ...
        >>> field = df.Field(mesh, nvdim=1, value=1)
        >>> field
        Field(...)

        """
        return html.strip_tags(self._repr_html_())

    def _repr_html_(self):
        """Show HTML-based representation in Jupyter notebook."""
        return html.get_template("field").render(field=self)

    def __call__(self, point):
        r"""Sample the field value at ``point``.

        It returns the value of the field in the discretisation cell to which
        ``point`` belongs to. It returns a tuple, whose length is the same as
        the dimension (``nvdim``) of the field.

        Parameters
        ----------
        point : array_like

            For example, in three dimensions, the mesh point coordinate
            :math:`\mathbf{p} = (p_{x}, p_{y}, p_{z})`.

        Returns
        -------
        tuple

            A tuple, whose length is the same as the dimension of the field.

        Example
        -------
        1. Sampling the field value.

        >>> import discretisedfield as df
        ...
        >>> p1 = (0, 0, 0)
        >>> p2 = (20, 20, 20)
        >>> n = (20, 20, 20)
        >>> mesh = df.Mesh(region=df.Region(p1=p1, p2=p2), n=n)
        ...
        >>> field = df.Field(mesh, nvdim=3, value=(1, 3, 4))
        >>> point = (10, 2, 3)
        >>> field(point)
        array([1., 3., 4.])

        """
        return self.array[self.mesh.point2index(point)]

    def __getattr__(self, attr):
        """Extract the component of the vector field.

        This method provides access to individual field components for fields
        with dimension > 1. Component labels are defined in the ``vdims``
        attribute. For dimension 2 and 3 default values ``'x'``, ``'y'``, and
        ``'z'`` are used if no custom component labels are provided. For fields
        with ``nvdim>3`` vdims must be specified manually to get
        access to individual vector components.

        Parameters
        ----------
        attr : str

            Vector field component defined in ``vdims``.

        Returns
        -------
        discretisedfield.Field

            Scalar field with vector field component values.

        Examples
        --------
        1. Accessing the default vector field vdims.

        >>> import discretisedfield as df
        ...
        >>> p1 = (0, 0, 0)
        >>> p2 = (2, 2, 2)
        >>> cell = (1, 1, 1)
        >>> mesh = df.Mesh(p1=p1, p2=p2, cell=cell)
        ...
        >>> field = df.Field(mesh=mesh, nvdim=3, value=(0, 0, 1))
        >>> field.x
        Field(...)
        >>> field.x.mean()
        array([0.])
        >>> field.y
        Field(...)
        >>> field.y.mean()
        array([0.])
        >>> field.z
        Field(...)
        >>> field.z.mean()
        array([1.])
        >>> field.z.nvdim
        1

        2. Accessing custom vector field vdims.

        >>> import discretisedfield as df
        ...
        >>> p1 = (0, 0, 0)
        >>> p2 = (2, 2, 2)
        >>> cell = (1, 1, 1)
        >>> mesh = df.Mesh(p1=p1, p2=p2, cell=cell)
        ...
        >>> field = df.Field(mesh=mesh, nvdim=3, value=(0, 0, 1),
        ...                  vdims=['mx', 'my', 'mz'])
        >>> field.mx
        Field(...)
        >>> field.mx.mean()
        array([0.])
        >>> field.my
        Field(...)
        >>> field.my.mean()
        array([0.])
        >>> field.mz
        Field(...)
        >>> field.mz.mean()
        array([1.])
        >>> field.mz.nvdim
        1

        """
        if attr in self._removed_attributes:
            raise AttributeError(
                f"'{attr}' has been removed; use '{self._removed_attributes[attr]}'"
                " instead."
            )
        if self.vdims is not None and attr in self.vdims:
            attr_array = self.array[..., self.vdims.index(attr), np.newaxis]
            try:
                vdim_mapping = {attr: self.vdim_mapping[attr]}
            except KeyError:
                vdim_mapping = {}
            return self.__class__(
                mesh=self.mesh,
                nvdim=1,
                value=attr_array,
                unit=self.unit,
                valid=self.valid,
                vdim_mapping=vdim_mapping,
            )
        else:
            raise AttributeError(f"Object has no attribute {attr}.")

    def __dir__(self):
        """Extension of the ``dir(self)`` list.

        Adds component labels to the ``dir(self)`` list. Similarly, adds or
        removes methods (``grad``, ``div``,...) depending on the dimension of
        the field.

        Returns
        -------
        list

            Avalilable attributes.

        """
        dirlist = dir(self.__class__)

        if self.vdims is not None:
            dirlist += self.vdims

        return dirlist

    def __iter__(self):
        r"""Generator yielding field values of all discretisation cells.

        Yields
        ------
        np.ndarray

            The field value in one discretisation cell.

        Examples
        --------
        1. Iterating through the field values

        >>> import discretisedfield as df
        ...
        >>> p1 = (0, 0, 0)
        >>> p2 = (2, 2, 1)
        >>> cell = (1, 1, 1)
        >>> mesh = df.Mesh(p1=p1, p2=p2, cell=cell)
        ...
        >>> field = df.Field(mesh, nvdim=3, value=(0, 0, 1))
        >>> for value in field:
        ...     print(value)
        [0. 0. 1.]
        [0. 0. 1.]
        [0. 0. 1.]
        [0. 0. 1.]

        2. Iterating through the mesh coordinates and field values

        >>> import discretisedfield as df
        ...
        >>> p1 = (0, 0, 0)
        >>> p2 = (2, 2, 1)
        >>> cell = (1, 1, 1)
        >>> mesh = df.Mesh(p1=p1, p2=p2, cell=cell)
        ...
        >>> field = df.Field(mesh, nvdim=3, value=(0, 0, 1))
        >>> for coord, value in zip(field.mesh, field):
        ...     print(coord, value)
        [0.5 0.5 0.5] [0. 0. 1.]
        [1.5 0.5 0.5] [0. 0. 1.]
        [0.5 1.5 0.5] [0. 0. 1.]
        [1.5 1.5 0.5] [0. 0. 1.]

        See also
        --------
        :py:func:`~discretisedfield.Mesh.__iter__`
        :py:func:`~discretisedfield.Mesh.indices`

        """
        for point in self.mesh:
            yield self(point)

    def __eq__(self, other):
        """Relational operator ``==``.

        Two fields are considered to be equal if:

          1. They are defined on the same mesh.

          2. They have the same number of value dimensions (``nvdim``).

          3. They both contain the same values in ``array``.

        Parameters
        ----------
        other : discretisedfield.Field

            Second operand.

        Returns
        -------
        bool

            ``True`` if two fields are equal, ``False`` otherwise.

        Examples
        --------
        1. Check if two fields are (not) equal.

        >>> import discretisedfield as df
        ...
        >>> mesh = df.Mesh(p1=(0, 0, 0), p2=(5, 5, 5), cell=(1, 1, 1))
        ...
        >>> f1 = df.Field(mesh, nvdim=1, value=3)
        >>> f2 = df.Field(mesh, nvdim=1, value=4-1)
        >>> f3 = df.Field(mesh, nvdim=3, value=(1, 4, 3))
        >>> f1 == f2
        True
        >>> f1 != f2
        False
        >>> f1 == f3
        False
        >>> f1 != f3
        True
        >>> f2 == f3
        False
        >>> f1 == 'a'
        False

        """
        if not isinstance(other, self.__class__):
            return False
        return (
            self.mesh == other.mesh
            and self.nvdim == other.nvdim
            and np.array_equal(self.array, other.array)
        )

    def allclose(self, other, rtol=1e-5, atol=1e-8):
        """Allclose method.

        This method determines whether two fields are:

          1. Defined on the same mesh.

          2. Have the same number of value dimension (``nvdim``).

          3. All values in are within relative (``rtol``) and absolute
          (``atol``) tolerances.

        Parameters
        ----------
        other : discretisedfield.Field

            Field to be compared to.

        rtol : numbers.Real

            Relative tolerance. Defaults to 1e-5.

        atol : numbers.Real

            Absolute tolerance. Defaults to 1e-8.

        Returns
        -------
        bool

            ``True`` if two fields are within tolerance, ``False`` otherwise.

        Raises
        ------
        TypeError

            If a non field object is passed.

        Examples
        --------
        1. Check if two fields are within a tolerance.

        >>> import discretisedfield as df
        ...
        >>> mesh = df.Mesh(p1=(0, 0, 0), p2=(5, 5, 5), cell=(1, 1, 1))
        ...
        >>> f1 = df.Field(mesh, nvdim=1, value=3)
        >>> f2 = df.Field(mesh, nvdim=1, value=3+1e-9)
        >>> f3 = df.Field(mesh, nvdim=1, value=3.1)
        >>> f1.allclose(f2)
        True
        >>> f1.allclose(f3)
        False
        >>> f1.allclose(f3, atol=1e-2)
        False

        """
        if not isinstance(other, self.__class__):
            msg = (
                "Cannot apply allclose method between "
                f"{type(self)=} and {type(other)=} objects."
            )
            raise TypeError(msg)

        if self.mesh.allclose(other.mesh) and self.nvdim == other.nvdim:
            # Order matters absolute(a - b) <= (atol + rtol * absolute(b))
            # The above equation is not symmetric in a and b, so that allclose(a, b)
            # might be different from allclose(b, a)
            # We want it relative to the original array
            return np.allclose(other.array, self.array, rtol=rtol, atol=atol)
        else:
            return False

    def is_same_vectorspace(self, other):  # TODO: check vdims
        if not isinstance(other, self.__class__):
            raise TypeError(f"Object of type {type(other)} not supported.")
        return self.nvdim == other.nvdim

    def _check_same_mesh_and_field_dim(self, other, ignore_scalar=False):
        if not isinstance(other, self.__class__):
            raise TypeError(f"Object of type {type(other)} not supported.")

        if not self.mesh.allclose(other.mesh):
            raise ValueError(
                "To perform this operation both fields must have the same mesh."
            )

        if ignore_scalar and (self.nvdim == 1 or other.nvdim == 1):
            return

        if not self.is_same_vectorspace(other):
            raise ValueError(
                "To perform this operation both fields must have the same"
                " number of vector components."
            )

    def _apply_operator(self, other, function, operator):
        valid = self.valid
        nvdim = self.nvdim
        vdims = self.vdims
        vdim_mapping = self.vdim_mapping
        if isinstance(other, self.__class__):
            self._check_same_mesh_and_field_dim(other, ignore_scalar=True)
            valid = np.logical_and(valid, other.valid)
            if self.nvdim == 1 and other.nvdim > 1:
                # scalar (op) vector: the result has the vector's components
                nvdim = other.nvdim
                vdims = other.vdims
                vdim_mapping = other.vdim_mapping
            other = other.array
        elif isinstance(other, numbers.Complex):
            pass
        elif isinstance(other, (tuple, list, np.ndarray)):
            if not (
                self.array.shape == np.shape(other)
                or self.nvdim == len(other)
                or self.nvdim == 1
            ):
                raise TypeError(
                    f"Unsupported operand type(s) for {operator}: {type(self)} with"
                    f" {self.nvdim} vdims and {type(other)} with shape"
                    f" {np.shape(other)}."
                )
        else:
            msg = (
                f"Unsupported operand type(s) for {operator}: {type(self)=} and"
                f" {type(other)=}."
            )
            raise TypeError(msg)

        res_array = function(self.array, other)
        if nvdim != res_array.shape[-1]:
            vdims = None
        return self.__class__(
            self.mesh,
            nvdim=res_array.shape[-1],
            value=res_array,
            vdims=vdims,
            valid=valid,
            vdim_mapping=vdim_mapping,
        )

    def __pos__(self):
        """Unary ``+`` operator.

        This method defines the unary operator ``+``. It returns the field
        itself:

        .. math::

            +f(x, y, z) = f(x, y, z)

        Returns
        -------
        discretisedfield.Field

            Field itself.

        Example
        -------
        1. Applying unary ``+`` operator on a field.

        >>> import discretisedfield as df
        ...
        >>> p1 = (0, 0, 0)
        >>> p2 = (5e-9, 5e-9, 5e-9)
        >>> n = (10, 10, 10)
        >>> mesh = df.Mesh(p1=p1, p2=p2, n=n)
        ...
        >>> f = df.Field(mesh, nvdim=3, value=(0, -1000, -3))
        >>> res = +f
        >>> res.mean()
        array([    0., -1000.,    -3.])
        >>> res == f
        True
        >>> +(+f) == f
        True

        """
        return self.__class__(
            self.mesh,
            nvdim=self.nvdim,
            value=+self.array,
            vdims=self.vdims,
            valid=self.valid,
            vdim_mapping=self.vdim_mapping,
        )

    def __neg__(self):
        r"""Unary ``-`` operator.

        This method negates the value of each discretisation cell. It is
        equivalent to multiplication with -1:

        .. math::

            -f(x, y, z) = -1 \cdot f(x, y, z)

        Returns
        -------
        discretisedfield.Field

            Field multiplied with -1.

        Example
        -------
        1. Applying unary ``-`` operator on a scalar field.

        >>> import discretisedfield as df
        ...
        >>> p1 = (0, 0, 0)
        >>> p2 = (5e-9, 3e-9, 1e-9)
        >>> n = (10, 5, 1)
        >>> mesh = df.Mesh(p1=p1, p2=p2, n=n)
        ...
        >>> f = df.Field(mesh, nvdim=1, value=3.1)
        >>> res = -f
        >>> res.mean()
        array([-3.1])
        >>> f == -(-f)
        True

        2. Applying unary negation operator on a vector field.

        >>> f = df.Field(mesh, nvdim=3, value=(0, -1000, -3))
        >>> res = -f
        >>> res.mean()
        array([   0., 1000.,    3.])

        """
        return self.__class__(
            self.mesh,
            nvdim=self.nvdim,
            value=-self.array,
            vdims=self.vdims,
            valid=self.valid,
            vdim_mapping=self.vdim_mapping,
        )

    def __pow__(self, other):
        """Unary ``**`` operator.

        This method defines the ``**`` operator for scalar (``nvdim=1``) fields
        only. This operator is not defined for vector (``nvdim>1``) fields, and
        ``ValueError`` is raised.

        Parameters
        ----------
        other : numbers.Real

            Value to which the field is raised.

        Returns
        -------
        discretisedfield.Field

            Resulting field.

        Raises
        ------
        ValueError, TypeError

            If the operator cannot be applied.

        Example
        -------
        1. Applying unary ``**`` operator on a scalar field.

        >>> import discretisedfield as df
        ...
        >>> p1 = (-25e-3, -25e-3, -25e-3)
        >>> p2 = (25e-3, 25e-3, 25e-3)
        >>> n = (10, 10, 10)
        >>> mesh = df.Mesh(region=df.Region(p1=p1, p2=p2), n=n)
        ...
        >>> f = df.Field(mesh, nvdim=1, value=2)
        >>> res = f**(-1)
        >>> res
        Field(...)
        >>> res.mean()
        array([0.5])
        >>> res = f**2
        >>> res.mean()
        array([4.])
        >>> (f**f).mean()
        array([4.])

        2. Attempt to apply power operator on a vector field.

        >>> p1 = (0, 0, 0)
        >>> p2 = (5e-9, 5e-9, 5e-9)
        >>> n = (10, 10, 10)
        >>> mesh = df.Mesh(p1=p1, p2=p2, n=n)
        ...
        >>> f = df.Field(mesh, nvdim=3, value=(0, -1, -3))
        >>> (f**2).mean()
        array([0., 1., 9.])

        """
        return self._apply_operator(other, np.power, "**")

    def __add__(self, other):
        """Binary ``+`` operator.

        It can be applied between two ``discretisedfield.Field`` objects or
        between a ``discretisedfield.Field`` object and a "constant". For
        instance if the field is a scalar field, a scalar field or
        ``numbers.Real`` can be the second operand. Similarly, for a vector
        field, either vector field or an iterable, such as ``tuple``, ``list``,
        or ``numpy.ndarray``, can be the second operand. If the second operand
        is a ``discretisedfield.Field`` object, both must be defined on the
        same mesh and have the same dimensions.

        Parameters
        ----------
        other : discretisedfield.Field, numbers.Real, tuple, list, np.ndarray

            Second operand.

        Returns
        -------
        discretisedfield.Field

            Resulting field.

        Raises
        ------
        ValueError, TypeError

            If the operator cannot be applied.

        Example
        -------
        1. Add vector fields.

        >>> import discretisedfield as df
        ...
        >>> p1 = (0, 0, 0)
        >>> p2 = (5, 3, 1)
        >>> cell = (1, 1, 1)
        >>> mesh = df.Mesh(p1=p1, p2=p2, cell=cell)
        ...
        >>> f1 = df.Field(mesh, nvdim=3, value=(0, -1, -3.1))
        >>> f2 = df.Field(mesh, nvdim=3, value=(0, 1, 3.1))
        >>> res = f1 + f2
        >>> res.mean()
        array([0., 0., 0.])
        >>> f1 + f2 == f2 + f1
        True
        >>> res = f1 + (1, 2, 3.1)
        >>> res.mean()
        array([1., 1., 0.])
        >>> (f1 + 5).mean()
        array([5. , 4. , 1.9])

        .. seealso:: :py:func:`~discretisedfield.Field.__sub__`

        """
        return self._apply_operator(other, np.add, "+")

    def __radd__(self, other):
        return self + other

    def __sub__(self, other):
        """Binary ``-`` operator.

        It can be applied between two ``discretisedfield.Field`` objects or
        between a ``discretisedfield.Field`` object and a "constant". For
        instance if the field is a scalar field, a scalar field or
        ``numbers.Real`` can be the second operand. Similarly, for a vector
        field, either vector field or an iterable, such as ``tuple``, ``list``,
        or ``numpy.ndarray``, can be the second operand. If the second operand
        is a ``discretisedfield.Field`` object, both must be defined on the
        same mesh and have the same dimensions.

        Parameters
        ----------
        other : discretisedfield.Field, numbers.Real, tuple, list, np.ndarray

            Second operand.

        Returns
        -------
        discretisedfield.Field

            Resulting field.

        Raises
        ------
        ValueError, TypeError

            If the operator cannot be applied.

        Example
        -------
        1. Subtract vector fields.

        >>> import discretisedfield as df
        ...
        >>> p1 = (0, 0, 0)
        >>> p2 = (5, 3, 1)
        >>> cell = (1, 1, 1)
        >>> mesh = df.Mesh(p1=p1, p2=p2, cell=cell)
        ...
        >>> f1 = df.Field(mesh, nvdim=3, value=(0, 1, 6))
        >>> f2 = df.Field(mesh, nvdim=3, value=(0, 1, 3))
        >>> res = f1 - f2
        >>> res.mean()
        array([0., 0., 3.])
        >>> f1 - f2 == -(f2 - f1)
        True
        >>> res = f1 - (0, 1, 0)
        >>> res.mean()
        array([0., 0., 6.])

        .. seealso:: :py:func:`~discretisedfield.Field.__add__`

        """
        return self._apply_operator(other, np.subtract, "-")

    def __rsub__(self, other):
        return -self + other

    def __mul__(self, other):
        """Binary ``*`` operator.

        It can be applied between:

        1. Two fields with equal vector dimensions ``nvdim``,

        2. A field of any dimension ``nvdim`` and ``numbers.Complex``,

        3. A field of any dimension ``nvdim`` and a scalar (``nvdim=1``) field.

        If both operands are ``discretisedfield.Field`` objects, they must be
        defined on the same mesh.

        Parameters
        ----------
        other : discretisedfield.Field, numbers.Real

            Second operand.

        Returns
        -------
        discretisedfield.Field

            Resulting field.

        Raises
        ------
        ValueError, TypeError

            If the operator cannot be applied.

        Example
        -------
        1. Multiply two scalar fields.

        >>> import discretisedfield as df
        ...
        >>> p1 = (0, 0, 0)
        >>> p2 = (10, 10, 10)
        >>> cell = (2, 2, 2)
        >>> mesh = df.Mesh(p1=p1, p2=p2, cell=cell)
        ...
        >>> f1 = df.Field(mesh, nvdim=1, value=5)
        >>> f2 = df.Field(mesh, nvdim=1, value=9)
        >>> res = f1 * f2
        >>> res.mean()
        array([45.])
        >>> f1 * f2 == f2 * f1
        True

        2. Multiply vector field with a scalar.

        >>> f1 = df.Field(mesh, nvdim=3, value=(0, 2, 5))
        ...
        >>> res = f1 * 5  # discretisedfield.Field.__mul__ is called
        >>> res.mean()
        array([ 0., 10., 25.])
        >>> res = 10 * f1  # discretisedfield.Field.__rmul__ is called
        >>> res.mean()
        array([ 0., 20., 50.])

        .. seealso:: :py:func:`~discretisedfield.Field.__truediv__`

        """
        return self._apply_operator(other, np.multiply, "*")

    def __rmul__(self, other):
        return self * other

    def __truediv__(self, other):
        """Binary ``/`` operator.

        It can be applied between:

        1. Two fields with equal vector dimensions ``nvdim``,

        2. A field of any dimension ``nvdim`` and ``numbers.Complex``,

        3. A field of any dimension ``nvdim`` and a scalar (``nvdim=1``) field.

        If both operands are ``discretisedfield.Field`` objects, they must be
        defined on the same mesh.

        Parameters
        ----------
        other : discretisedfield.Field, numbers.Real

            Second operand.

        Returns
        -------
        discretisedfield.Field

            Resulting field.

        Raises
        ------
        ValueError, TypeError

            If the operator cannot be applied.

        Example
        -------
        1. Divide two scalar fields.

        >>> import discretisedfield as df
        ...
        >>> p1 = (0, 0, 0)
        >>> p2 = (10, 10, 10)
        >>> cell = (2, 2, 2)
        >>> mesh = df.Mesh(p1=p1, p2=p2, cell=cell)
        ...
        >>> f1 = df.Field(mesh, nvdim=1, value=100)
        >>> f2 = df.Field(mesh, nvdim=1, value=20)
        >>> res = f1 / f2
        >>> res.mean()
        array([5.])
        >>> (f1 / f2).allclose((f2 / f1)**(-1))
        True

        2. Divide vector field by a scalar.

        >>> f1 = df.Field(mesh, nvdim=3, value=(20, 10, 5))
        >>> res = f1 / 5  # discretisedfield.Field.__mul__ is called
        >>> res.mean()
        array([4., 2., 1.])
        >>> (10 / f1).mean()
        array([0.5, 1. , 2. ])

        .. seealso:: :py:func:`~discretisedfield.Field.__mul__`

        """
        return self._apply_operator(other, np.divide, "/")

    def __rtruediv__(self, other):
        # TODO: Fix error messages - wrong order
        return self._apply_operator(other, lambda x, y: np.divide(y, x), "/")

    def dot(self, other):
        """Dot product.

        This method computes the dot product between two fields. Both fields
        must have the same number of vector dimentions and defined on the same mesh

        Parameters
        ----------
        other : discretisedfield.Field

            Second operand.

        Returns
        -------
        discretisedfield.Field

            Resulting field.

        Raises
        ------
        ValueError, TypeError

            If the operator cannot be applied.

        Example
        -------
        1. Compute the dot product of two vector fields.

        >>> import discretisedfield as df
        ...
        >>> p1 = (0, 0, 0)
        >>> p2 = (10e-9, 10e-9, 10e-9)
        >>> cell = (2e-9, 2e-9, 2e-9)
        >>> mesh = df.Mesh(p1=p1, p2=p2, cell=cell)
        ...
        >>> f1 = df.Field(mesh, nvdim=3, value=(1, 3, 6))
        >>> f2 = df.Field(mesh, nvdim=3, value=(-1, -2, 2))
        >>> f1.dot(f2).mean()
        array([5.])

        """
        valid = self.valid
        if isinstance(other, self.__class__):
            self._check_same_mesh_and_field_dim(other)
            valid = np.logical_and(valid, other.valid)
            other = other.array
        elif not isinstance(other, (tuple, list, np.ndarray)):
            msg = (
                f"Unsupported operand type(s) for dot product: {type(self)=} and"
                f" {type(other)=}."
            )
            raise TypeError(msg)

        res_array = np.einsum("...l,...l->...", self.array, other)
        return self.__class__(
            self.mesh, nvdim=1, value=res_array[..., np.newaxis], valid=valid
        )

    def __matmul__(self, other):
        return self.dot(other)

    def __rmatmul__(self, other):
        return self.dot(other)

    def cross(self, other):
        """Cross product.

        This method computes the cross product between two fields. Both fields
        must be three-dimensional (``nvdim=3``) and defined on the same mesh.

        Parameters
        ----------
        other : discretisedfield.Field, tuple, list, numpy.ndarray

            Second operand.

        Returns
        -------
        discretisedfield.Field

            Resulting field.

        Raises
        ------
        ValueError, TypeError

            If the operator cannot be applied.

        Example
        -------
        1. Compute the cross product of two vector fields.

        >>> import discretisedfield as df
        ...
        >>> p1 = (0, 0, 0)
        >>> p2 = (10, 10, 10)
        >>> cell = (2, 2, 2)
        >>> mesh = df.Mesh(p1=p1, p2=p2, cell=cell)
        ...
        >>> f1 = df.Field(mesh, nvdim=3, value=(1, 0, 0))
        >>> f2 = df.Field(mesh, nvdim=3, value=(0, 1, 0))
        >>> (f1.cross(f2)).mean()
        array([0., 0., 1.])
        >>> (f1.cross((0, 0, 1))).mean()
        array([ 0., -1.,  0.])

        """
        valid = self.valid
        if isinstance(other, self.__class__):
            self._check_same_mesh_and_field_dim(other)
            if self.nvdim != 3 or other.nvdim != 3:
                msg = (
                    f"Cannot apply cross product on {self.nvdim=} and"
                    f" {other.nvdim=} fields."
                )
                raise ValueError(msg)
            valid = np.logical_and(valid, other.valid)
            other = other.array
        elif not isinstance(other, (tuple, list, np.ndarray)):
            msg = (
                f"Unsupported operand type(s) for cross product: {type(self)=} and"
                f" {type(other)=}."
            )
            raise TypeError(msg)

        return self.__class__(
            self.mesh,
            nvdim=3,
            value=np.cross(self.array, other),
            vdims=self.vdims,
            valid=valid,
        )

    def __and__(self, other):
        return self.cross(other)

    def __rand__(self, other):
        return -self.cross(other)

    def __lshift__(self, other):
        """Stacks multiple scalar fields in a single vector field.

        This method takes a list of scalar (``nvdim=1``) fields and returns a
        vector field, whose components are defined by the scalar fields passed.
        If any of the fields passed has ``nvdim!=1`` or they are not defined on
        the same mesh, an exception is raised. The dimension of the resulting
        field is equal to the length of the passed list.

        Parameters
        ----------
        fields : list

            List of ``discretisedfield.Field`` objects, each with ``nvdim=1``.

        Returns
        -------
        disrectisedfield.Field

            Resulting field.

        Raises
        ------
        ValueError

            If the dimension of any of the fields is not 1, or the fields
            passed are not defined on the same mesh.

        Example
        -------
        1. Stack 3 scalar fields.

        >>> import discretisedfield as df
        ...
        >>> p1 = (0, 0, 0)
        >>> p2 = (10, 10, 10)
        >>> cell = (2, 2, 2)
        >>> mesh = df.Mesh(p1=p1, p2=p2, cell=cell)
        ...
        >>> f1 = df.Field(mesh, nvdim=1, value=1)
        >>> f2 = df.Field(mesh, nvdim=1, value=5)
        >>> f3 = df.Field(mesh, nvdim=1, value=-3)
        ...
        >>> f = f1 << f2 << f3
        >>> f.mean()
        array([ 1.,  5., -3.])
        >>> f.nvdim
        3
        >>> f.x == f1
        True
        >>> f.y == f2
        True
        >>> f.z == f3
        True

        """
        valid = self.valid
        if isinstance(other, self.__class__):
            if self.mesh != other.mesh:
                msg = "Cannot apply operator << on fields defined on different meshes."
                raise ValueError(msg)
            valid = np.logical_and(valid, other.valid)
        elif isinstance(other, numbers.Complex):
            return self << self.__class__(self.mesh, nvdim=1, value=other)
        elif isinstance(other, (tuple, list, np.ndarray)):
            return self << self.__class__(self.mesh, nvdim=len(other), value=other)
        else:
            msg = (
                f"Unsupported operand type(s) for <<: {type(self)=} and {type(other)=}."
            )
            raise TypeError(msg)

        array_list = [self.array[..., i] for i in range(self.nvdim)]
        array_list += [other.array[..., i] for i in range(other.nvdim)]

        if self.vdims is None or other.vdims is None:
            vdims = None
        else:
            vdims = self.vdims + other.vdims
            if len(vdims) != len(set(vdims)):
                # Component name duplicated; could happen e.g. for lshift with
                # a number -> choose labels automatically
                vdims = None

        vdim_mapping = self.vdim_mapping.copy()
        vdim_mapping.update(other.vdim_mapping)
        if len(vdim_mapping) != len(array_list):
            # keys are missing or not unique -> the user has to set the mapping manually
            vdim_mapping = None

        return self.__class__(
            self.mesh,
            nvdim=len(array_list),
            value=np.stack(array_list, axis=-1),
            vdims=vdims,
            valid=valid,
            vdim_mapping=vdim_mapping,
        )

    def __rlshift__(self, other):
        if isinstance(other, numbers.Complex):
            return self.__class__(self.mesh, nvdim=1, value=other) << self
        elif isinstance(other, (tuple, list, np.ndarray)):
            return self.__class__(self.mesh, nvdim=len(other), value=other) << self
        else:
            msg = (
                f"Unsupported operand type(s) for <<: {type(self)=} and {type(other)=}."
            )
            raise TypeError(msg)

    def pad(self, pad_width, mode, **kwargs):
        """Field padding.

        This method pads the field by adding more cells in chosen direction and
        assigning to them the values as specified by the ``mode`` argument.
        The way in which the field is going to padded is defined by passing
        ``pad_width`` dictionary. The keys of the dictionary are the directions
        (axes), e.g. ``'x'``, ``'y'``, or ``'z'``, whereas the values are the
        tuples of length 2. The first integer in the tuple is the number of
        cells added in the negative direction, and the second integer is the
        number of cells added in the positive direction.

        This method accepts any other arguments allowed by ``numpy.pad``
        function.

        Parameters
        ----------
        pad_width : dict

            The keys of the dictionary are the directions (axes), e.g. ``'x'``,
            ``'y'``, or ``'z'``, whereas the values are the tuples of length 2.
            The first integer in the tuple is the number of cells added in the
            negative direction, and the second integer is the number of cells
            added in the positive direction.

        mode: str

            Padding mode as defined in ``numpy.pad``.

        Returns
        -------
        discretisedfield.Field

            Padded field.

        Examples
        --------
        1. Padding a field in the x direction by 1 cell with ``constant`` mode.

        >>> import discretisedfield as df
        ...
        >>> p1 = (0, 0, 0)
        >>> p2 = (2, 1, 1)
        >>> cell = (1, 1, 1)
        >>> mesh = df.Mesh(p1=p1, p2=p2, cell=cell)
        >>> field = df.Field(mesh, nvdim=1, value=1)
        ...
        >>> # Two cells with value 1
        >>> pf = field.pad({'x': (1, 1)}, mode='constant')  # zeros padded
        >>> pf.mean()
        array([0.5])

        """
        d = {}
        for key, value in pad_width.items():
            d[self.mesh.region._dim2index(key)] = value
        padding_sequence = dfu.assemble_index((0, 0), len(self.array.shape), d)
        padded_array = np.pad(self.array, padding_sequence, mode=mode, **kwargs)

        padding_sequence = dfu.assemble_index((0, 0), len(self.valid.shape), d)
        padded_valid = np.pad(self.valid, padding_sequence, mode=mode, **kwargs)
        padded_mesh = self.mesh.pad(pad_width)

        return self.__class__(
            padded_mesh,
            nvdim=self.nvdim,
            value=padded_array,
            vdims=self.vdims,
            unit=self.unit,
            vdim_mapping=self.vdim_mapping,
            valid=padded_valid,
        )

    def _diff_old(self, direction, order=1):
        """Dreprecated directional derivative.

        This method uses second order accurate finite difference stencils by default
        unless the field is defined on a mesh with too few cells in the differential
        direction. In this case the first order accurate finite difference stencils
        are used at the boundaries and the second order accurate finite difference
        stencils are used in the interior.

        Computing of the directional derivative depends
        strongly on the boundary condition specified in the mesh on which the
        field is defined on. More precisely, the values of the derivatives at
        the boundary are different for periodic, Neumann, dirichlet, or no boundary
        conditions. For details on boundary conditions, please refer to the
        ``disretisedfield.Mesh`` class.

        Parameters
        ----------
        direction : str

            The direction in which the derivative is computed. It can be
            ``'x'``, ``'y'``, or ``'z'``.

        order : int

            The order of the derivative. It can be 1 or 2 and it defaults to 1.

        Returns
        -------
        discretisedfield.Field

            Directional derivative.

        Raises
        ------
        NotImplementedError

            If order ``n`` higher than 2 is asked for.

        """
        # We tried using FinDiff for calculating the derivatives, but there
        # was a problem with the boundary conditions. We have implemented
        # differential operators using slicing. This is not the most efficient
        # way, and we should consider using ndimage.convolve in the future.

        direction_idx = self.mesh.region._dim2index(direction)

        # If there are no neighbouring cells in the specified direction, zero
        # field is returned.
        # Directional derivative cannot be computed if less or an equal number of
        # discretisation cells exists in a specified direction than the order.
        # In that case, a zero field is returned.
        if self.mesh.n[direction_idx] <= order:
            return self.__class__(
                self.mesh,
                nvdim=self.nvdim,
                vdims=self.vdims,
                unit=self.unit,
                valid=self.valid,
                vdim_mapping=self.vdim_mapping,
            )

        # Preparation (padding) for computing the derivative, depending on the
        # boundary conditions (PBC, Neumann, or no BC). Depending on the BC,
        # the field array is padded.
        if self.mesh.bc == "neumann":
            pad_width = {direction: (1, 1)}
            padding_mode = "symmetric"
        elif self.mesh.bc == "dirichlet":
            pad_width = {direction: (1, 1)}
            padding_mode = "constant"
        elif direction in self.mesh.bc:  # PBC
            pad_width = {direction: (1, 1)}
            padding_mode = "wrap"
        else:  # No BC - no padding
            pad_width = {}
            padding_mode = "constant"

        padded_array = self.pad(pad_width, mode=padding_mode).array

        if order not in (1, 2):
            msg = f"Derivative of the {order} order is not implemented."
            raise NotImplementedError(msg)

        elif order == 1:
            if self.mesh.n[direction_idx] < 3:
                # The derivative is computed using forward/backward difference
                # as the array is too small to use central difference.
                # This is first order accurate.
                derivative_array = np.gradient(
                    padded_array, self.mesh.cell[direction_idx], axis=direction_idx
                )
            else:
                if self.mesh.bc == "":
                    # If there is no boundary condition, the derivative is
                    # computed using central difference in the interior and
                    # forward/backward difference at the boundaries.
                    # All of these finite difference methods are second-order
                    # accurate.
                    # These stencil coefficients are taken from FinDiff.
                    # https://findiff.readthedocs.io/en/latest/
                    # Pad with specific values so that the same finite difference
                    # stencil can be used across the whole array
                    # The example for forward difference is shown below with the
                    # 0 index for the cell at the start of the array and the
                    # p index for the for the padded cell which is positioned
                    # at before index 0.
                    #
                    # central difference = forward difference
                    # 0.5 * f(1) - 0.5 * f(p) = - 0.5 f(2) + 2 f(1) - 1.5 f(0)
                    # f(p) = f(2) - 3 f(1) + 3 f(0)
                    def pad_fun(vector, pad_width, iaxis, kwargs):
                        # The incides of the padded array is
                        # Original array -> Padded array
                        # f(p) -> f(0)
                        # f(0) -> f(1)
                        # f(1) -> f(2)
                        # f(2) -> f(3)

                        if iaxis == direction_idx:
                            vector[0] = vector[3] - 3 * vector[2] + 3 * vector[1]
                            vector[-1] = vector[-4] - 3 * vector[-3] + 3 * vector[-2]

                    pad_width = [(0, 0)] * 4
                    pad_width[direction_idx] = (1, 1)
                    padded_array = np.pad(padded_array, pad_width, pad_fun)

                index_p1 = dfu.assemble_index(
                    slice(None), 4, {direction_idx: slice(2, None)}
                )
                index_m1 = dfu.assemble_index(
                    slice(None), 4, {direction_idx: slice(None, -2)}
                )
                derivative_array = (
                    0.5 * padded_array[index_p1] - 0.5 * padded_array[index_m1]
                ) / self.mesh.cell[direction_idx]

        elif order == 2:
            # The derivative is computed using the central difference
            # with forward/backward difference at the boundaries.
            if self.mesh.bc == "":
                if self.mesh.n[direction_idx] < 4:
                    # Pad with specific values so that the same finite difference
                    # stencil can be used across the whole array
                    # See comments in order == 1 for more details.
                    # central difference = forward difference
                    # f(1) + f(p) - 2 f(0) = f(2) + f(0) - 2 f(1)
                    # f(p) = f(2) - 3 f(1) + 3f(0)

                    def pad_fun(vector, pad_width, iaxis, kwargs):
                        if iaxis == direction_idx:
                            vector[0] = vector[3] - 3 * vector[2] + 3 * vector[1]
                            vector[-1] = vector[-4] - 3 * vector[-3] + 3 * vector[-2]

                else:
                    # The derivative is computed using accuracy of 2 everywhere
                    # Pad with specific values so that the same finite difference
                    # stencil can be used across the whole array
                    # See comments in order == 1 for more details.
                    # central difference = forward difference
                    # f(1) + f(p) - 2 f(0) =  - f(3) + 4 f(2) - 5 f(1) + 2 f(0)
                    # f(p) = - f(3) + 4 f(2) - 6 f(1) + 4 f(0)

                    def pad_fun(vector, pad_width, iaxis, kwargs):
                        if iaxis == direction_idx:
                            vector[0] = (
                                -vector[4]
                                + 4 * vector[3]
                                - 6 * vector[2]
                                + 4 * vector[1]
                            )
                            vector[-1] = (
                                -vector[-5]
                                + 4 * vector[-4]
                                - 6 * vector[-3]
                                + 4 * vector[-2]
                            )

                pad_width = [(0, 0)] * 4
                pad_width[direction_idx] = (1, 1)
                padded_array = np.pad(padded_array, pad_width, pad_fun)

            index_p1 = dfu.assemble_index(
                slice(None), 4, {direction_idx: slice(2, None)}
            )
            index_0 = dfu.assemble_index(slice(None), 4, {direction_idx: slice(1, -1)})
            index_m1 = dfu.assemble_index(
                slice(None), 4, {direction_idx: slice(None, -2)}
            )
            derivative_array = (
                padded_array[index_p1]
                - 2 * padded_array[index_0]
                + padded_array[index_m1]
            ) / self.mesh.cell[direction_idx] ** 2

        # Remove padded values (if any).
        if derivative_array.shape != self.array.shape:
            derivative_array = derivative_array[
                dfu.assemble_index(slice(None), 4, {direction_idx: slice(1, -1)})
            ]

        return self.__class__(
            self.mesh,
            nvdim=self.nvdim,
            value=derivative_array,
            vdims=self.vdims,
            unit=self.unit,
            valid=self.valid,
            vdim_mapping=self.vdim_mapping,
        )

    def diff(self, direction, order=1, restrict2valid=True):
        """Directional derivative.

        This method computes a directional derivative of the field and returns
        a field. The direction in which the derivative is computed is passed
        via ``direction`` argument, which can be any element of ``region.dims``.
        The order of the computed derivative can be 1 or 2 and it is specified
        using argument ``order`` and it defaults to 1.

        This method uses second order accurate finite difference stencils by default
        unless the field is defined on a mesh with too few cells in the differential
        direction. In this case the first order accurate finite difference stencils
        are used at the boundaries and the second order accurate finite difference
        stencils are used in the interior.

        Directional derivative cannot be computed if less or equal discretisation
        cells exists in a specified direction than the order.
        In that case, a zero field is returned.

        By default, the directional derivative is computed only across contiguous
        areas of the field where the field is valid. This behaviour can be
        changed to compute the directional derivative across the whole field
        by setting ``restrict2valid`` to ``False``.

        Computing of the directional derivative depends
        strongly on the boundary condition specified. In this method,
        only periodic boundary conditions at the edges of the region
        are supported. To enable periodic boundary conditions, set ``mesh.bc``.

        Parameters
        ----------
        direction : str

            The spatial direction in which the derivative is computed.

        order : int

            The order of the derivative. It can be 1 or 2 and it defaults to 1.

        restrict2valid : bool

            If ``True``, the directional derivative is computed only across
            contiguous areas of the field where the field is valid. If ``False``,
            the directional derivative is computed across the whole field.
            The default value is ``True``.


        Returns
        -------
        discretisedfield.Field

            Directional derivative.

        Raises
        ------
        NotImplementedError

            If order ``n`` higher than 2 is asked for.

        Example
        -------
        1. Compute the first-order directional derivative of a scalar field in
        the y-direction of a spatially varying field. For the field we choose
        :math:`f(x, y, z) = 2x + 3y - 5z`. Accordingly, we expect the
        derivative in the y-direction to be to be a constant scalar field
        :math:`df/dy = 3`.

        >>> import discretisedfield as df
        ...
        >>> p1 = (0, 0, 0)
        >>> p2 = (100e-9, 100e-9, 10e-9)
        >>> cell = (10e-9, 10e-9, 10e-9)
        >>> mesh = df.Mesh(p1=p1, p2=p2, cell=cell)
        ...
        >>> def value_fun(point):
        ...     x, y, z = point
        ...     return 2*x + 3*y + -5*z
        ...
        >>> f = df.Field(mesh, nvdim=1, value=value_fun)
        >>> f.diff('y').mean()  # first-order derivative by default
        array([3.])

        2. Try to compute the second-order directional derivative of the vector
        field which has only one discretisation cell in the z-direction. For
        the field we choose :math:`f(x, y, z) = (2x, 3y, -5z)`. Accordingly, we
        expect the directional derivatives to be: :math:`df/dx = (2, 0, 0)`,
        :math:`df/dy=(0, 3, 0)`, :math:`df/dz = (0, 0, -5)`. However, because
        there is only one discretisation cell in the z-direction, the
        derivative cannot be computed and a zero field is returned.

        >>> import numpy as np
        >>> def value_fun(point):
        ...     x, y, z = point
        ...     return (2*x, 3*y, -5*z)
        ...
        >>> f = df.Field(mesh, nvdim=3, value=value_fun)
        >>> np.allclose(f.diff('x', order=1).mean(), [2, 0, 0])
        True
        >>> np.allclose(f.diff('y', order=1).mean(), [0, 3, 0])
        True
        >>> f.diff('z', order=1).mean()  # derivative cannot be calculated
        array([0., 0., 0.])

        3. Compute the second-order directional derivative of a scalar field with
        which is only valid below x=5.

        >>> def value_fun(point):
        ...     x = point
        ...     return x
        ...
        >>> def valid_fun(point):
        ...     x = point
        ...     return x < 5
        ...
        >>> mesh = df.Mesh(p1=0, p2=10, cell=1)
        >>> f = df.Field(mesh, nvdim=1, value=value_fun, valid=valid_fun)
        >>> f.diff('x', order=1).array.tolist()
        [[1.0], [1.0], [1.0], [1.0], [1.0], [0.0], [0.0], [0.0], [0.0], [0.0]]

        """
        # Check order of derivative
        if order not in (1, 2):
            raise NotImplementedError(f"Derivative of {order=} is not implemented.")

        direction_idx = self.mesh.region._dim2index(direction)

        # If direction is periodic pad the field. 'neumann' and 'dirichlet' name a
        # boundary condition; they are not lists of periodic directions.
        periodic = (
            self.mesh.bc not in ("neumann", "dirichlet") and direction in self.mesh.bc
        )
        if periodic:
            field = self.pad({direction: (1, 1)}, mode="wrap")
        else:
            field = self

        # Use only valid values for the derivative if restrict2valid is True
        # or use all values if restrict2valid is False
        valid = field.valid if restrict2valid else np.ones_like(field.valid, dtype=bool)

        out = np.zeros_like(field.array)

        # Loop over all cells in the plane perpendicular to the direction of the
        # derivative. Use sel method in a way that keeps the dimensionality but
        # only returns a single layer in the direction of the derivative
        point = field.mesh.region.pmin[direction_idx]
        for idx in field.mesh.sel(**{direction: (point, point)}).indices:
            idx = list(idx)
            idx[direction_idx] = slice(None)
            valid_arr = valid[tuple(idx)]
            # Loop over all value dimensions of the vector field and
            # compute the derivative for each value dimension.
            for dim in range(field.nvdim):
                out[tuple([*idx, dim])] = _split_diff_combine(
                    field.array[tuple([*idx, dim])],
                    valid_arr,
                    order,
                    field.mesh.cell[direction_idx],
                )

        # Remove the padding if periodic is True
        if periodic:
            slices = field.mesh.region2slices(self.mesh.region)
            out = out[slices]

        return self.__class__(
            self.mesh,
            nvdim=self.nvdim,
            value=out,
            vdims=self.vdims,
            unit=self.unit,
            valid=self.valid,
            vdim_mapping=self.vdim_mapping,
        )

    @property
    def grad(self):
        r"""Gradient.

        This method computes the gradient of a scalar (``nvdim=1``) field and
        returns a vector field with the same number of dimensions as the space
        on which the scalar field is defined (``ndim``):

        .. math::

            \nabla f = (\frac{\partial f}{\partial x_1},
                        ...
                        \frac{\partial f}{\partial x_ndim}

        Directional derivative cannot be computed if only one discretisation
        cell exists in a certain direction. In that case, a zero field is
        considered to be that directional derivative. More precisely, it is
        assumed that the field does not change in that direction.

        Returns
        -------
        discretisedfield.Field

            Resulting field.

        Raises
        ------
        ValueError

            If the dimension of the field is not 1.

        Example
        -------
        1. Compute gradient of a contant field.

        >>> import discretisedfield as df
        >>> import numpy as np
        ...
        >>> p1 = (0, 0, 0)
        >>> p2 = (10e-9, 10e-9, 10e-9)
        >>> cell = (2e-9, 2e-9, 2e-9)
        >>> mesh = df.Mesh(p1=p1, p2=p2, cell=cell)
        ...
        >>> f = df.Field(mesh, nvdim=1, value=5)
        >>> np.allclose(f.grad.mean(), 0, atol=1e-06)
        True

        2. Compute gradient of a spatially varying field. For a field we choose
        :math:`f(x, y, z) = 2x + 3y - 5z`. Accordingly, we expect the gradient
        to be a constant vector field :math:`\nabla f = (2, 3, -5)`.

        >>> def value_fun(point):
        ...     x, y, z = point
        ...     return 2*x + 3*y - 5*z
        ...
        >>> f = df.Field(mesh, nvdim=1, value=value_fun)
        >>> f.grad.mean()
        array([ 2.,  3., -5.])

        3. Attempt to compute the gradient of a vector field.

        >>> f = df.Field(mesh, nvdim=3, value=(1, 2, -3))
        >>> f.grad
        Traceback (most recent call last):
        ...
        ValueError: ...

        .. seealso:: :py:func:`~discretisedfield.Field.derivative`

        """
        if self.nvdim != 1:
            msg = f"Cannot compute gradient for nvdim={self.nvdim} field."
            raise ValueError(msg)

        # Create a list of derivatives for each dimension
        derivatives = [self.diff(dim) for dim in self.mesh.region.dims]

        result = derivatives[0]
        for derivative in derivatives[1:]:
            result = result << derivative

        return result

    @property
    def div(self):
        r"""Compute the divergence of a field.

        This method calculates the divergence of a field of dimension `nvdim`
        and returns a scalar (``nvdim=1``) field as a result.

        .. math::

            \nabla\cdot\mathbf{v} = \sum_i\frac{\partial v_{i}}
            {\partial i}

        Directional derivative cannot be computed if only one discretisation
        cell exists in a certain direction. In that case, a zero field is
        considered to be that directional derivative. More precisely, it is
        assumed that the field does not change in that direction.

        Returns
        -------
        discretisedfield.Field

            Resulting field.

        Raises
        ------
        ValueError

            If the field and the mesh don't have the same dimentionality or
            they are not mapped correctly.

        Example
        -------
        1. Compute the divergence of a vector field. For a field we choose
        :math:`\mathbf{v}(x, y, z) = (2x, -2y, 5z)`. Accordingly, we expect
        the divergence to be to be a constant scalar field :math:`\nabla\cdot
        \mathbf{v} = 5`.

        >>> import discretisedfield as df
        ...
        >>> p1 = (0, 0, 0)
        >>> p2 = (100e-9, 100e-9, 100e-9)
        >>> cell = (10e-9, 10e-9, 10e-9)
        >>> mesh = df.Mesh(p1=p1, p2=p2, cell=cell)
        ...
        >>> def value_fun(point):
        ...     x, y, z = point
        ...     return (2*x, -2*y, 5*z)
        ...
        >>> f = df.Field(mesh, nvdim=3, value=value_fun)
        >>> f.div.mean()
        array([5.])

        .. seealso:: :py:func:`~discretisedfield.Field.derivative`

        """
        if self.nvdim != self.mesh.region.ndim:
            raise ValueError(
                f"Cannot compute divergence for field with a differnt {self.nvdim=} and"
                f" {self.mesh.region.ndim}."
            )

        for vdim in self.vdims:
            if vdim not in self.vdim_mapping:
                raise ValueError(
                    f"Cannot compute divergence for field as {vdim} is not present in"
                    f"{self.vdim_mapping=}."
                )
            elif self.vdim_mapping[vdim] not in self.mesh.region.dims:
                raise ValueError(
                    f"Cannot compute divergence for field as {self.vdim_mapping[vdim]}"
                    f"is not present in {self.mesh.region.dims=}."
                )

        return sum(
            getattr(self, vdim).diff(self.vdim_mapping[vdim]) for vdim in self.vdims
        )

    @property
    def curl(self):
        r"""Curl.

        This method computes the curl of a three dimensional vector (``nvdim=3``)
        field in three spatial dimensions (``ndim=3``) and returns
        a three dimensional vector (``nvdim=3``) field in three spatial
        dimensions (``ndim=3``)

        .. math::

            \nabla \times \mathbf{v} = \left(\frac{\partial
            v_{2}}{\partial x_{1}} - \frac{\partial v_{1}}{\partial x_{2}},
            \frac{\partial v_{0}}{\partial x_{2}} - \frac{\partial
            v_{2}}{\partial x_{0}}, \frac{\partial v_{1}}{\partial x_{0}} -
            \frac{\partial v_{0}}{\partial x_{1}},\right)

        Directional derivative cannot be computed if only one discretisation
        cell exists in a certain direction. In that case, a zero field is
        considered to be that directional derivative. More precisely, it is
        assumed that the field does not change in that direction.
        ``vdim_mapping`` needs to be set in order to relate the vector and
        spatial dimensions.

        Returns
        -------
        discretisedfield.Field

            Curl of the field.

        Raises
        ------
        ValueError

            If the ``ndim`` or ``nvdim`` of the field is not 3.
            The ``vdims`` are not correctly mapped to the ``dims``.

        Example
        -------
        1. Compute curl of a vector field. For a field we choose
        :math:`\mathbf{v}(x, y, z) = (2xy, -2y, 5xz)`. Accordingly, we expect
        the curl to be to be a constant vector field :math:`\nabla\times
        \mathbf{v} = (0, -5z, -2x)`.

        >>> import discretisedfield as df
        ...
        >>> p1 = (0, 0, 0)
        >>> p2 = (10, 10, 10)
        >>> cell = (2, 2, 2)
        >>> mesh = df.Mesh(p1=p1, p2=p2, cell=cell)
        ...
        >>> def value_fun(point):
        ...     x, y, z = point
        ...     return (2*x*y, -2*y, 5*x*z)
        ...
        >>> f = df.Field(mesh, nvdim=3, value=value_fun)
        >>> f.curl((1, 1, 1))
        array([ 0., -5., -2.])

        2. Attempt to compute the curl of a scalar field.

        >>> f = df.Field(mesh, nvdim=1, value=3.14)
        >>> f.curl
        Traceback (most recent call last):
        ...
        ValueError: ...

        .. seealso:: :py:func:`~discretisedfield.Field.derivative`

        """
        if self.nvdim != 3 or self.mesh.region.ndim != 3:
            raise ValueError(
                "Curl can only be computed for a field with nvdim=3 and ndim=3,"
                f"Not {self.nvdim=} and {self.mesh.region.ndim}"
            )

        for vdim in self.vdims:
            if vdim not in self.vdim_mapping:
                raise ValueError(
                    f"Cannot compute curl of the field as {vdim} is not present in"
                    f" {self.vdim_mapping=}."
                )
            elif self.vdim_mapping[vdim] not in self.mesh.region.dims:
                raise ValueError(
                    f"Cannot compute curl of the field as {self.vdim_mapping[vdim]}"
                    f" is not present in {self.mesh.region.dims=}."
                )

        # Use dims order instead of vdims
        x, y, z = self.mesh.region.dims
        curl_x = getattr(self, self._r_dim_mapping[z]).diff(y) - getattr(
            self, self._r_dim_mapping[y]
        ).diff(z)
        curl_y = getattr(self, self._r_dim_mapping[x]).diff(z) - getattr(
            self, self._r_dim_mapping[z]
        ).diff(x)
        curl_z = getattr(self, self._r_dim_mapping[y]).diff(x) - getattr(
            self, self._r_dim_mapping[x]
        ).diff(y)

        return curl_x << curl_y << curl_z

    @property
    def laplace(self):
        r"""Laplace operator.

        This method computes the laplacian for any field:

        .. math::

            \nabla^2 f = \sum_{i=0}^\mathrm{ndim}
                                \frac{\partial^{2} f}{\partial x_i^{2}}

        .. math::

            \nabla^2 \mathbf{f} = (\nabla^2 f_{0},
                                     ...
                                     \nabla^2 f_mathrm{nvdim})

        Directional derivative cannot be computed if only one discretisation
        cell exists in a certain direction. In that case, a zero field is
        considered to be that directional derivative. More precisely, it is
        assumed that the field does not change in that direction.

        Returns
        -------
        discretisedfield.Field

            Laplacian of the field.

        Example
        -------
        1. Compute Laplacian of a contant scalar field.

        >>> import discretisedfield as df
        ...
        >>> p1 = (0, 0, 0)
        >>> p2 = (10e-9, 10e-9, 10e-9)
        >>> cell = (2e-9, 2e-9, 2e-9)
        >>> mesh = df.Mesh(p1=p1, p2=p2, cell=cell)
        ...
        >>> f = df.Field(mesh, nvdim=1, value=5)
        >>> f.laplace.mean()
        array([0.])

        2. Compute Laplacian of a spatially varying field. For a field we
        choose :math:`f(x, y, z) = 2x^{2} + 3y - 5z`. Accordingly, we expect
        the Laplacian to be a constant vector field :math:`\nabla f = (4, 0,
        0)`.

        >>> def value_fun(point):
        ...     x, y, z = point
        ...     return 2*x**2 + 3*y - 5*z
        ...
        >>> f = df.Field(mesh, nvdim=1, value=value_fun)
        >>> assert abs(f.laplace.mean() - 4) < 1e-3

        .. seealso:: :py:func:`~discretisedfield.Field.derivative`

        """

        # Create a list of derivatives for each dimension
        if self.nvdim == 1:
            derivatives = [
                sum(self.diff(dim, order=2) for dim in self.mesh.region.dims)
            ]
        else:
            derivatives = [
                sum(
                    getattr(self, vdim).diff(dim, order=2)
                    for dim in self.mesh.region.dims
                )
                for vdim in self.vdims
            ]

        result = derivatives[0]
        for derivative in derivatives[1:]:
            result = result << derivative

        return result

    def integrate(self, direction=None, cumulative=False):
        r"""Integral.

        This method integrates the field over the mesh along the specified direction,
        which can be specified using ``direction``. The field is internally multiplied
        with the cell size in that direction. If no direction is specified the integral
        is computed along all directions.

        To compute surface integrals, e.g. flux, the field must be multiplied with the
        surface normal vector prior to integration (see example 4).

        A cumulative integral can be computed by passing ``cumulative=True`` and by
        specifying a single direction. It resembles the following integral (here as an
        example in the x direction):

        .. math::

            F(x, y, z) = \int_{p_\mathrm{min}}^x f(x', y, z) \mathrm{d}x

        The method sums all cells up to (excluding) the cell that contains the point x.
        The cell containing x is added with a weight 1/2.

        Parameters
        ----------
        direction : str, optional

            Direction along which the field is integrated. The direction must be in
            ``field.mesh.region.dims``. Defaults to ``None``.

        cumulative : bool, optional

            If ``True``, an cumulative integral is computed. Defaults to ``False``.

        Returns
        -------
        discretisedfield.Field or np.ndarray

            Integration result. If the field is integrated in all directions, an
            ``np.ndarray`` is returned.

        Raises
        ------
        ValueError

            If ``cumulative=True`` and no integration direction is specified.

        Example
        -------
        1. Volume integral of a scalar field.

        .. math::

            \int_\mathrm{V} f(\mathbf{r}) \mathrm{d}V

        >>> import discretisedfield as df
        ...
        >>> p1 = (0, 0, 0)
        >>> p2 = (10, 10, 10)
        >>> cell = (2, 2, 2)
        >>> mesh = df.Mesh(p1=p1, p2=p2, cell=cell)
        ...
        >>> f = df.Field(mesh, nvdim=1, value=5)
        >>> f.integrate()
        array([5000.])

        2. Volume integral of a vector field.

        .. math::

            \int_\mathrm{V} \mathbf{f}(\mathbf{r}) \mathrm{d}V

        >>> f = df.Field(mesh, nvdim=3, value=(-1, -2, -3))
        >>> f.integrate()
        array([-1000., -2000., -3000.])

        3. Surface integral of a scalar field.

        .. math::

            \int_\mathrm{S} f(\mathbf{r}) |\mathrm{d}\mathbf{S}|

        >>> f = df.Field(mesh, nvdim=1, value=5)
        >>> f_plane = f.sel('z')
        >>> f_plane.integrate()
        array([500.])

        4. Surface integral of a vector field (flux). The dot product with the surface
        normal vector must be calculated manually.

        .. math::

            \int_\mathrm{S} \mathbf{f}(\mathbf{r}) \cdot \mathrm{d}\mathbf{S}

        >>> f = df.Field(mesh, nvdim=3, value=(1, 2, 3))
        >>> f_plane = f.sel('z')
        >>> e_z = [0, 0, 1]
        >>> f_plane.dot(e_z).integrate()
        array([300.])

        5. Integral along x-direction.

        .. math::

            \int_{x_\mathrm{min}}^{x_\mathrm{max}} \mathbf{f}(\mathbf{r}) \mathrm{d}x

        >>> f = df.Field(mesh, nvdim=3, value=(1, 2, 3))
        >>> f_plane = f.sel('z')
        >>> f_plane.integrate(direction='x').mean()
        array([10., 20., 30.])

        6. Cumulative integral along x-direction.

        .. math::

            \int_{x_\mathrm{min}}^{x} \mathbf{f}(\mathbf{r}) \mathrm{d}x'

        >>> f = df.Field(mesh, nvdim=3, value=(1, 2, 3))
        >>> f_plane = f.sel('z')
        >>> f_plane.integrate(direction='x', cumulative=True)
        Field(...)

        """
        if direction is None:
            if cumulative:
                raise ValueError(
                    "A cumulative integral can only computed along one direction."
                )
            sum_ = np.sum(self.array, axis=tuple(range(self.mesh.region.ndim)))
            return sum_ * self.mesh.dV
        elif not isinstance(direction, str):
            raise TypeError("'direction' must be of type str.")

        axis = self.mesh.region._dim2index(direction)

        if cumulative:
            # Sum all cell values up to (excuding) point x and add half the cell value
            # of the cell containing point x then multiply by the cell size.
            tmp_array = self.array / 2
            ndim = self.mesh.region.ndim
            left_cells = dfu.assemble_index(slice(None), ndim, {axis: slice(None, -1)})
            right_cells = dfu.assemble_index(slice(None), ndim, {axis: slice(1, None)})
            tmp_array[right_cells] += np.cumsum(self.array, axis=axis)[left_cells]
            res_array = tmp_array * self.mesh.cell[axis]
        else:
            res_array = np.sum(self.array, axis=axis) * self.mesh.cell[axis]

        if self.mesh.region.ndim == 1 and not cumulative:
            # no 0-dimensional region and mesh
            return res_array

        mesh = self.mesh if cumulative else self.mesh.sel(direction)
        return self.__class__(
            mesh,
            nvdim=self.nvdim,
            value=res_array,
            vdims=self.vdims,
            vdim_mapping=self.vdim_mapping,
        )

    def line(self, p1, p2, n=100):
        r"""Sample the field along the line.

        Given two points :math:`p_{1}` and :math:`p_{2}`, :math:`n` position
        coordinates are generated and the corresponding field values.

        .. math::

           \mathbf{r}_{i} = i\frac{\mathbf{p}_{2} -
           \mathbf{p}_{1}}{n-1}

        Parameters
        ----------
        p1, p2 : array_like

            Two points between which the line is generated.

        n : int, optional

            Number of points on the line. Defaults to 100.

        Returns
        -------
        discretisedfield.Line

            Line object.

        Raises
        ------
        ValueError

            If ``p1`` or ``p2`` is outside the mesh domain.

        Examples
        --------
        1. Sampling the field along the line.

        >>> import discretisedfield as df
        ...
        >>> p1 = (0, 0, 0)
        >>> p2 = (2, 2, 2)
        >>> cell = (1, 1, 1)
        >>> mesh = df.Mesh(p1=p1, p2=p2, cell=cell)
        >>> field = df.Field(mesh, nvdim=2, value=(0, 3))
        ...
        >>> line = field.line(p1=(0, 0, 0), p2=(2, 0, 0), n=5)

        """
        points = list(self.mesh.line(p1=p1, p2=p2, n=n))
        values = [self(p) for p in points]

        return df.Line(
            points=points,
            values=values,
            point_columns=self.mesh.region.dims,
            value_columns=[f"v{dim}" for dim in self.vdims]
            if self.vdims is not None
            else "v",
        )  # TODO scalar fields have no vdim

    def sel(self, *args, **kwargs):
        """Select a part of the field.

        If one of the axis from ``region.dims`` is passed as a string, a field of a
        reduced dimension along the axis and perpendicular to it is extracted,
        intersecting the axis at its center. Alternatively, if a keyword (representing
        the axis) argument is passed with a real number value (e.g. ``x=1e-9``), a field
        of reduced dimensions intersects the axis at a point 'nearest' to the provided
        value is returned. If the mesh is already 1 dimentional a numpy array of the
        field values is returned.

        If instead a tuple, list or a numpy array of length 2 is
        passed as a value containing two real numbers (e.g. ``x=(1e-9, 7e-9)``), a sub
        field is returned with minimum and maximum points along the selected axis,
        'nearest' to the minimum and maximum of the selected values, respectively.

        Parameters
        ----------
        args :

            A string corresponding to the selection axis that belongs to
            ``region.dims``.

        kwarg :

            A key corresponding to the selection axis that belongs to ``region.dims``.
            The values are either a ``numbers.Real`` or list, tuple, numpy array of
            length 2 containing ``numbers.Real`` which represents a point or a range of
            points to be selected from the mesh.

        Returns
        -------
        discretisedfield.Field or numpy.ndarray

            An extracted field.

        Examples
        --------
        1. Extracting the mesh at a specific point (``y=1``).

        >>> import discretisedfield as df
        ...
        >>> p1 = (0, 0, 0)
        >>> p2 = (5, 5, 5)
        >>> cell = (1, 1, 1)
        >>> mesh = df.Mesh(p1=p1, p2=p2, cell=cell)
        >>> field = df.Field(mesh, nvdim=3, value=(1, 2, 3))
        >>> plane_field = field.sel(y=1)
        >>> plane_field.mesh.region.ndim
        2
        >>> plane_field.mesh.region.dims
        ('x', 'z')
        >>> plane_field.mean()
        array([1., 2., 3.])

        2. Extracting the xy-plane mesh at the mesh region center.

        >>> plane_field = field.sel('z')
        >>> plane_field.mesh.region.ndim
        2
        >>> plane_field.mesh.region.dims
        ('x', 'y')
        >>> plane_field.mean()
        array([1., 2., 3.])

        3. Specifying a range of points along axis ``x`` to be selected from mesh.

        >>> selected_field = field.sel(x=(2, 4))
        >>> selected_field.mesh.region.ndim
        3
        >>> selected_field.mesh.region.dims
        ('x', 'y', 'z')

        4. Extracting the mesh at a specific point on a 1D mesh.
        >>> mesh = df.Mesh(p1=0, p2=5, cell=1)
        >>> field = df.Field(mesh, nvdim=3, value=(1, 2, 3))
        >>> field.sel('x')
        array([1., 2., 3.])

        """
        dim, dim_index, _, sel_index = self.mesh._sel_convert_input(*args, **kwargs)

        slices = dfu.assemble_index(
            slice(None), self.mesh.region.ndim + 1, {dim_index: sel_index}
        )
        array = self.array[slices]

        valid = self.valid[slices[:-1]]

        try:
            mesh = self.mesh.sel(*args, **kwargs)
        except ValueError as e:
            if "p1 and p2 must not be empty" not in str(e):
                raise
            return array  # 1 dim case
        else:  # n dim case
            return self.__class__(
                mesh,
                nvdim=self.nvdim,
                value=array,
                vdims=self.vdims,
                unit=self.unit,
                valid=valid,
                vdim_mapping=self.vdim_mapping,
            )

    def resample(self, n):
        """Resample field.

        This method computes the field on a new mesh with ``n`` cells. The boundaries
        ``pmin`` and ``pmax`` stay unchanged. The values of the new cells are taken from
        the nearest old cell, no interpolation is performed.

        Parameters
        ----------
        n : array_like

            Number of cells in each direction. The number of elements must match
            field.mesh.region.ndim.

        Returns
        -------
        discretisedfield.Field

            The resampled field.

        Examples
        --------
        1. Decrease the number of cells.

        >>> import discretisedfield as df
        ...
        >>> p1 = (0, 0, 0)
        >>> p2 = (100, 100, 100)
        >>> cell = (10, 10, 10)
        >>> mesh = df.Mesh(p1=p1, p2=p2, cell=cell)
        >>> f = df.Field(mesh, nvdim=1, value=1)
        >>> f.mesh.n
        array([10, 10, 10])
        >>> down_sampled = f.resample((5, 5, 5))
        >>> down_sampled.mesh.n
        array([5, 5, 5])

        2. Increase the number of cells.

        >>> import discretisedfield as df
        ...
        >>> p1 = (0, 0, 0)
        >>> p2 = (100, 100, 100)
        >>> cell = (10, 10, 10)
        >>> mesh = df.Mesh(p1=p1, p2=p2, cell=cell)
        >>> f = df.Field(mesh, nvdim=1, value=1)
        >>> f.mesh.n
        array([10, 10, 10])
        >>> up_sampled = f.resample((10, 15, 20))
        >>> up_sampled.mesh.n
        array([10, 15, 20])

        """
        mesh = df.Mesh(region=self.mesh.region, n=n)
        return self.__class__(
            mesh,
            nvdim=self.nvdim,
            value=self,
            vdims=self.vdims,
            unit=self.unit,
            dtype=self.dtype,
            valid=self.__class__(self.mesh, nvdim=1, value=self.valid, dtype=bool),
            vdim_mapping=self.vdim_mapping,
        )

    def __getitem__(self, item):
        """Extracts the field on a subregion.

        If subregions were defined by passing ``subregions`` dictionary when
        the mesh was created, this method returns a field in a subregion
        ``subregions[item]``. Alternatively, a ``discretisedfield.Region``
        object can be passed and a minimum-sized field containing it will be
        returned. The resulting mesh has the same discretisation cell as the
        original field's mesh.

        Parameters
        ----------
        item : str, discretisedfield.Region

            The key of a subregion in ``subregions`` dictionary or a region
            object.

        Returns
        -------
        disretisedfield.Field

            Field on a subregion.

        Example
        -------
        1. Extract field on the subregion by passing a key.

        >>> import discretisedfield as df
        ...
        >>> p1 = (0, 0, 0)
        >>> p2 = (100, 100, 100)
        >>> cell = (10, 10, 10)
        >>> subregions = {'r1': df.Region(p1=(0, 0, 0), p2=(50, 100, 100)),
        ...               'r2': df.Region(p1=(50, 0, 0), p2=(100, 100, 100))}
        >>> mesh = df.Mesh(p1=p1, p2=p2, cell=cell, subregions=subregions)
        >>> def value_fun(point):
        ...     x, y, z = point
        ...     if x <= 50:
        ...         return (1, 2, 3)
        ...     else:
        ...         return (-1, -2, -3)
        ...
        >>> f = df.Field(mesh, nvdim=3, value=value_fun)
        >>> f.mean()
        array([0., 0., 0.])
        >>> f['r1']
        Field(...)
        >>> f['r1'].mean()
        array([1., 2., 3.])
        >>> f['r2'].mean()
        array([-1., -2., -3.])

        2. Extracting a subfield by passing a region.

        >>> import discretisedfield as df
        ...
        >>> p1 = (-50e-9, -25e-9, 0)
        >>> p2 = (50e-9, 25e-9, 5e-9)
        >>> cell = (5e-9, 5e-9, 5e-9)
        >>> region = df.Region(p1=p1, p2=p2)
        >>> mesh = df.Mesh(region=region, cell=cell)
        >>> field = df.Field(mesh=mesh, nvdim=1, value=5)
        ...
        >>> subregion = df.Region(p1=(-9e-9, -1e-9, 1e-9),
        ...                       p2=(9e-9, 14e-9, 4e-9))
        >>> subfield = field[subregion]
        >>> subfield.array.shape
        (4, 4, 1, 1)

        """
        submesh = self.mesh[item]

        index_min = self.mesh.point2index(
            submesh.index2point((0,) * submesh.region.ndim)
        )
        index_max = np.add(index_min, submesh.n)
        slices = [slice(i, j) for i, j in zip(index_min, index_max)]
        return self.__class__(
            submesh,
            nvdim=self.nvdim,
            value=self.array[tuple(slices)],
            vdims=self.vdims,
            unit=self.unit,
            valid=self.valid[tuple(slices)],
            vdim_mapping=self.vdim_mapping,
        )

    def angle(self, vector):
        r"""Angle between two vectors.

        It can be applied between two ``discretisedfield.Field`` objects.
        For a vector field, the second operand can be a vector in the form of
        an iterable, such as ``tuple``, ``list``,
        or ``numpy.ndarray``. If the second operand
        is a ``discretisedfield.Field`` object, both must be defined on the
        same mesh and have the same dimensions.
        This method then returns a scalar field which is an angle
        between the component of the vector field and a vector.
        The angle is computed in radians and all values are in :math:`(0,
        2\pi)` range.

        Parameters
        ----------
        other : discretisedfield.Field, numbers.Real, tuple, list, np.ndarray
            Second operand.

        Returns
        -------
        discretisedfield.Field

            Angle scalar field.

        Raises
        ------
        ValueError, TypeError

            If the field is not sliced.

        Example
        -------
        1. Computing the angle of the field in yz-plane.

        >>> import discretisedfield as df
        >>> import numpy as np
        ...
        >>> p1 = (0, 0, 0)
        >>> p2 = (100, 100, 100)
        >>> n = (10, 10, 10)
        >>> mesh = df.Mesh(p1=p1, p2=p2, n=n)
        >>> field = df.Field(mesh, nvdim=3, value=(0, 1, 0))
        ...
        >>> field.angle((1, 0, 0)).mean()
        array([1.57079633])

        """
        valid = self.valid
        if isinstance(vector, self.__class__):
            self._check_same_mesh_and_field_dim(vector)
            valid = np.logical_and(valid, vector.valid)
        elif (self.nvdim == 1 and isinstance(vector, numbers.Complex)) or isinstance(
            vector, (tuple, list, np.ndarray)
        ):
            vector = self.__class__(self.mesh, nvdim=self.nvdim, value=vector)
        else:
            msg = (
                f"Unsupported operand type(s) for angle: {type(self)=} and"
                f" {type(vector)=}."
            )
            raise TypeError(msg)

        angle_array = np.arccos((self.dot(vector) / (self.norm * vector.norm)).array)
        return self.__class__(
            self.mesh, nvdim=1, value=angle_array, unit="rad", valid=valid
        )

    def rotate90(self, ax1, ax2, k=1, reference_point=None, inplace=False):
        """Rotate field and underlying mesh by 90°.

        Rotate the field ``k`` times by 90 degrees in the plane defined by ``ax1`` and
        ``ax2``. The rotation direction is from ``ax1`` to ``ax2``, the two must be
        different.

        For vector fields (``nvdim>1``) the components of the vector pointing along
        ``ax1`` and ``ax2`` are determined from ``vdim_mapping``. Rotation is only
        possible if this mapping defines vector components along both directions ``ax1``
        and ``ax2``.

        Parameters
        ----------
        ax1 : str

            Name of the first dimension.

        ax2 : str

            Name of the second dimension.

        k : int, optional

            Number of 90° rotations, defaults to 1.

        reference_point : array_like, optional

            Point around which the mesh is rotated. If not provided the mesh.region's
            centre point of the field is used.

        inplace : bool, optional

            If ``True``, the rotation is applied in-place. Defaults to ``False``.

        Returns
        -------
        discretisedfield.Field

            The rotated field object. Either a new object or a reference to the
            existing field for ``inplace=True``.

        Raises
        ------

        RuntimeError

            If a vector field (``nvdim>1``) does not provide the required mapping
            between spatial directions and vector components in ``vdim_mapping``.

        Examples
        --------

        >>> import discretisedfield as df
        >>> import numpy as np
        >>> p1 = (0, 0, 0)
        >>> p2 = (10, 8, 6)
        >>> mesh = df.Mesh(p1=p1, p2=p2, n=(10, 4, 6))
        >>> field = df.Field(mesh, nvdim=3, value=(1, 2, 3))
        >>> rotated = field.rotate90('x', 'y')
        >>> rotated.mesh.region.pmin
        array([ 1., -1.,  0.])
        >>> rotated.mesh.region.pmax
        array([9., 9., 6.])
        >>> rotated.mesh.n
        array([ 4, 10,  6])
        >>> rotated.mean()
        array([-2.,  1.,  3.])

        See also
        --------
        :py:func:`~discretisedfield.Region.rotate90`
        :py:func:`~discretisedfield.Mesh.rotate90`

        """
        # all checks are performed when rotating the mesh; the mesh of the field
        # itself is only rotated (inplace=True) once nothing can be refused anymore
        mesh = self.mesh.rotate90(
            ax1=ax1, ax2=ax2, k=k, reference_point=reference_point, inplace=False
        )

        idx1 = self.mesh.region._dim2index(ax1)
        idx2 = self.mesh.region._dim2index(ax2)
        value = np.rot90(self.array.copy(), k=k, axes=(idx1, idx2))
        valid = np.rot90(self.valid.copy(), k=k, axes=(idx1, idx2))

        if self.nvdim > 1:
            # rotate the vector, i.e. the relevant in-plane components
            try:
                vdim1 = self.vdims.index(self._r_dim_mapping[ax1])
                vdim2 = self.vdims.index(self._r_dim_mapping[ax2])
            except ValueError:
                raise RuntimeError(
                    "Missing information about vector orientation in"
                    f" {self.vdim_mapping=}. Manual update of the relation between"
                    " vector dimensions and spatial dimensions required."
                ) from None

            value1 = value[..., vdim1].copy()
            value2 = value[..., vdim2].copy()

            theta = k * np.pi / 2
            # quarter turns have cos, sin in {-1, 0, 1}: use the exact values, otherwise
            # cos(pi/2) ~ 6e-17 leaks into the components (and truncates integer fields)
            cos_theta = round(np.cos(theta))
            sin_theta = round(np.sin(theta))
            value[..., vdim1] = cos_theta * value1 - sin_theta * value2
            value[..., vdim2] = sin_theta * value1 + cos_theta * value2

        if inplace:
            self.mesh.rotate90(
                ax1=ax1, ax2=ax2, k=k, reference_point=reference_point, inplace=True
            )
            self.update_field_values(value)
            self.valid = valid
            return self
        else:
            return self.__class__(
                mesh,
                nvdim=self.nvdim,
                value=value,
                vdims=self.vdims,
                dtype=self.dtype,
                unit=self.unit,
                valid=valid,
                vdim_mapping=self.vdim_mapping,
            )

    def to_vtk(self):
        """Convert field to vtk rectilinear grid.

        This method convers at `discretisedfield.Field` into a
        `vtk.vtkRectilinearGrid`. The field data (``field.array``) is stored as
        ``CELL_DATA`` of the ``RECTILINEAR_GRID``. Only fields with ``ndim=3``
        can be converted. The ``x``, ``y``, and ``z``, spatial coordinates of
        the VTK array will be in the same order as ``field.mesh.region.dims``.
        Scalar fields (``nvdim=1``)
        contain one VTK array called ``field``. Vector fields (``nvdim>1``)
        contain one VTK array called ``field`` containing vector data and
        scalar VTK arrays for each field component (called
        ``<component-name>-component``).

        Returns
        -------
        vtk.vtkRectilinearGrid

            VTK representation of the field.

        Raises
        ------
        AttributeError

            If the field has ``nvdim>1`` and component labels are missing.

        Examples
        --------
        >>> mesh = df.Mesh(p1=(0, 0, 0), p2=(10, 10, 10), cell=(1, 1, 1))
        >>> f = df.Field(mesh, nvdim=3, value=(0, 0, 1))
        >>> f_vtk = f.to_vtk()
        >>> print(f_vtk)
        vtkRectilinearGrid (...)
        ...
        >>> f_vtk.GetNumberOfCells()
        1000

        """
        if self.mesh.region.ndim != 3:
            raise RuntimeError(
                "Conversion to VTK RectilinearGrid is only possible for 'ndim=3', not"
                f" {self.mesh.region.ndim=}"
            )
        if self.nvdim > 1 and self.vdims is None:
            raise AttributeError(
                "Field vdims must be assigned before converting to vtk."
            )
        rgrid = vtkRectilinearGrid()
        rgrid.SetDimensions(*(n + 1 for n in self.mesh.n))

        for dim, setter in zip(
            self.mesh.region.dims,
            [rgrid.SetXCoordinates, rgrid.SetYCoordinates, rgrid.SetZCoordinates],
        ):
            setter(
                vns.numpy_to_vtk(np.fromiter(getattr(self.mesh.vertices, dim), float))
            )

        cell_data = rgrid.GetCellData()
        field_norm = vns.numpy_to_vtk(
            self.norm.array.transpose((2, 1, 0, 3)).reshape(-1)
        )
        field_norm.SetName("norm")
        cell_data.AddArray(field_norm)
        if self.nvdim > 1:
            # For some visualisation packages it is an advantage to have direct
            # access to the individual field components, e.g. for colouring.
            for comp in self.vdims:
                component_array = vns.numpy_to_vtk(
                    getattr(self, comp).array.transpose((2, 1, 0, 3)).reshape(-1)
                )
                component_array.SetName(f"{comp}")
                cell_data.AddArray(component_array)
        field_array = vns.numpy_to_vtk(
            self.array.transpose((2, 1, 0, 3)).reshape((-1, self.nvdim))
        )
        field_array.SetName("field")
        cell_data.AddArray(field_array)

        # No support for bools
        valid_array = vns.numpy_to_vtk(
            self.valid.astype(int).transpose((2, 1, 0)).reshape(-1)
        )
        valid_array.SetName("valid")
        cell_data.AddArray(valid_array)

        if self.nvdim == 3:
            cell_data.SetActiveVectors("field")
        elif self.nvdim == 1:
            cell_data.SetActiveScalars("field")
        return rgrid

    @property
    def mpl(self):
        """Plot interface, matplotlib based.

        This property provides access to the different plotting methods. It is
        also callable to quickly generate plots. For more details and the
        available methods refer to the documentation linked below.

        .. seealso::

            :py:func:`~discretisedfield.plotting.Mpl.__call__`
            :py:func:`~discretisedfield.plotting.Mpl.scalar`
            :py:func:`~discretisedfield.plotting.Mpl.vector`
            :py:func:`~discretisedfield.plotting.Mpl.lightness`
            :py:func:`~discretisedfield.plotting.Mpl.contour`

        Examples
        --------
        .. plot:: :context: close-figs

            1. Visualising the field using ``matplotlib``.

            >>> import discretisedfield as df
            ...
            >>> p1 = (0, 0, 0)
            >>> p2 = (100, 100, 100)
            >>> n = (10, 10, 10)
            >>> mesh = df.Mesh(p1=p1, p2=p2, n=n)
            >>> field = df.Field(mesh, nvdim=3, value=(1, 2, 0))
            >>> field.sel(z=50).resample(n=(5, 5)).mpl()

        """
        return dfp.MplField(self)

    @property
    def k3d(self):
        """Plot interface, k3d based."""
        return dfp.K3dField(self)

    @property
    def pyvista(self):
        """Plot interface, pyvista based."""
        return dfp.PyVistaField(self)

    @property
    def hv(self):
        """Plot interface, Holoviews/hvplot based.

        This property provides access to the different plotting methods. It is
        also callable to quickly generate plots. For more details and the
        available methods refer to the documentation linked below.

        Data shown in the plot is automatically filtered using the `valid` property of
        the field.

        .. seealso::

            :py:func:`~discretisedfield.plotting.Hv.__call__`
            :py:func:`~discretisedfield.plotting.Hv.scalar`
            :py:func:`~discretisedfield.plotting.Hv.vector`
            :py:func:`~discretisedfield.plotting.Hv.contour`

        Examples
        --------

        1. Visualising the field using ``hv``.

        >>> import discretisedfield as df
        ...
        >>> p1 = (0, 0, 0)
        >>> p2 = (100, 100, 100)
        >>> n = (10, 10, 10)
        >>> mesh = df.Mesh(p1=p1, p2=p2, n=n)
        >>> field = df.Field(mesh, nvdim=3, value=(1, 2, 0))
        >>> field.hv(kdims=['x', 'y'])
        :DynamicMap...

        """
        return dfp.Hv(self._hv_key_dims, self._hv_data_selection, self._hv_vdims_guess)

    def _hv_data_selection(self, **kwargs):
        """Select field part as specified by the input arguments."""
        vdims = kwargs.pop("vdims") if "vdims" in kwargs else None
        xrfield = self.to_xarray().copy()
        # we create copy to avoid changing field values
        # using np.where instead did cause issues with broadcasting
        xrfield.data[~self.valid] = np.nan
        res = xrfield.sel(**kwargs, method="nearest")
        if vdims:
            res = res.sel(vdims=vdims)
        return res

    def _hv_vdims_guess(self, kdims):
        """Try to find vector components matching the given kdims."""
        vdims = []
        for dim in kdims:
            vdims.append(self._r_dim_mapping[dim])
        # the hv class expects two valid vdims or None
        return None if None in vdims else vdims

    @property
    def _hv_key_dims(self):
        """Dict of key dimensions of the field.

        Keys are the field dimensions (domain and vector space, e.g. x, y, z, vdims)
        that have length > 1. Values are named_tuples ``hv_key_dim(data, unit)`` that
        contain the data (which has to fulfil len(data) > 1, typically as a numpy array
        or list) and the unit of a string (empty string if there is no unit).

        """
        key_dims = {
            dim: hv_key_dim(coords, unit)
            for dim, unit in zip(self.mesh.region.dims, self.mesh.region.units)
            if len(coords := getattr(self.mesh.cells, dim)) > 1
        }
        if self.nvdim > 1:
            key_dims["vdims"] = hv_key_dim(self.vdims, "")
        return key_dims

    def fftn(self, **kwargs):
        """Performs an N-dimensional discrete Fast Fourier Transform (FFT)
        on the field.

        This method applies an FFT to the field and the underying mesh, transforming
        it from a spatial domain into a frequency domain. During this process, any
        information about subregions within the field is lost.


        Parameters
        ----------
        **kwargs

            Keyword arguments passed directly to the FFT function provided by
            SciPy's fftpack :py:func:`scipy.fft.fftn`.

        Returns
        -------
        discretisedfield.Field

            A field representing the Fourier transform of the original field.
            This returned field has value dimensions labeled with frequency
            (``ft_`` in front of each vdim) and values corresponding to frequencies
            in the frequency domain.


        Examples
        --------
        1. Create a mesh and perform an FFT.
        >>> import discretisedfield as df
        >>> mesh = df.Mesh(p1=0, p2=10, cell=2)
        >>> field = df.Field(mesh, nvdim=3, value=(1, 2, 3))
        >>> fft_field = field.fftn()
        >>> fft_field.nvdim
        3
        >>> fft_field.vdims
        ['ft_x', 'ft_y', 'ft_z']

        2. Create a 3D mesh and perform an FFT.
        >>> import discretisedfield as df
        >>> mesh = df.Mesh(p1=(0, 0, 0), p2=(10, 10, 10), cell=(2, 2, 2))
        >>> field = df.Field(mesh, nvdim=4, value=(1, 2, 3, 4))
        >>> fft_field = field.fftn()
        >>> fft_field.nvdim
        4
        >>> fft_field.vdims
        ['ft_v0', 'ft_v1', 'ft_v2', 'ft_v3']

        See also
        --------
        :py:func:`~discretisedfield.Field.ifftn`
        :py:func:`~discretisedfield.Field.rfftn`
        :py:func:`~discretisedfield.Field.irfftn`
        :py:func:`~discretisedfield.Mesh.fftn`
        :py:func:`~discretisedfield.Mesh.ifftn`

        """
        mesh = self.mesh.fftn()

        # Use scipy as faster than numpy
        axes = range(self.mesh.region.ndim)
        ft = spfft.fftshift(
            spfft.fftn(self.array, axes=axes, **kwargs),
            axes=axes,
        )

        return self._fftn(mesh=mesh, array=ft, ifftn=False)

    def ifftn(self, **kwargs):
        """Performs an N-dimensional discrete inverse Fast Fourier Transform (iFFT)
        on the field.

        This method applies an iFFT to the field and the underying mesh, transforming
        it from a frequency domain into a spatial domain. During this process, any
        information about subregions within the field is lost.

        Parameters
        ----------
        **kwargs

            Keyword arguments passed directly to the iFFT function provided by
            SciPy's fftpack :py:func:`scipy.fft.ifftn`.

        Returns
        -------
        discretisedfield.Field

            A field representing the inverse Fourier transform of the original field.
            This returned field is in the spatial domain and has value dimensions
            labeled with the ``ft_`` removed if the vdims of the original field
            started with ``ft_``.

        Examples
        --------
        1. Create a mesh and perform an iFFT.
        >>> import discretisedfield as df
        >>> mesh = df.Mesh(p1=0, p2=10, cell=2)
        >>> field = df.Field(mesh, nvdim=3, value=(1, 2, 3))
        >>> ifft_field = field.fftn().ifftn()
        >>> ifft_field.nvdim
        3
        >>> ifft_field.vdims
        ['x', 'y', 'z']

        2. Create a 3D mesh and perform an iFFT.
        >>> import discretisedfield as df
        >>> mesh = df.Mesh(p1=(0, 0, 0), p2=(10, 10, 10), cell=(2, 2, 2))
        >>> field = df.Field(mesh, nvdim=4, value=(1, 2, 3, 4))
        >>> fft_field = field.fftn().ifftn()
        >>> fft_field.nvdim
        4
        >>> fft_field.vdims
        ['v0', 'v1', 'v2', 'v3']

        See also
        --------
        :py:func:`~discretisedfield.Field.fftn`
        :py:func:`~discretisedfield.Field.rfftn`
        :py:func:`~discretisedfield.Field.irfftn`
        :py:func:`~discretisedfield.Mesh.fftn`
        :py:func:`~discretisedfield.Mesh.ifftn`

        """
        mesh = self.mesh.ifftn()

        axes = range(self.mesh.region.ndim)
        ft = spfft.ifftn(
            spfft.ifftshift(self.array, axes=axes),
            axes=axes,
            **kwargs,
        )

        return self._fftn(mesh=mesh, array=ft, ifftn=True)

    def rfftn(self, **kwargs):
        """Performs an N-dimensional discrete real Fast Fourier Transform (rFFT)
        on the field.

        This method applies an rFFT to the field and the underying mesh, transforming
        it from a spatial domain into a frequency domain. During this process, any
        information about subregions within the field is lost.


        Parameters
        ----------
        **kwargs

            Keyword arguments passed directly to the rFFT function provided by
            SciPy's fftpack :py:func:`scipy.fft.rfftn`.

        Returns
        -------
        discretisedfield.Field

            A field representing the Fourier transform of the original field.
            This returned field has value dimensions labeled with frequency
            (``ft_`` in front of each vdim) and values corresponding to frequencies
            in the frequency domain.


        Examples
        --------
        1. Create a mesh and perform an rFFT.
        >>> import discretisedfield as df
        >>> mesh = df.Mesh(p1=0, p2=10, cell=2)
        >>> field = df.Field(mesh, nvdim=3, value=(1, 2, 3))
        >>> fft_field = field.rfftn()
        >>> fft_field.nvdim
        3
        >>> fft_field.vdims
        ['ft_x', 'ft_y', 'ft_z']

        2. Create a 3D mesh and perform an rFFT.
        >>> import discretisedfield as df
        >>> mesh = df.Mesh(p1=(0, 0, 0), p2=(10, 10, 10), cell=(2, 2, 2))
        >>> field = df.Field(mesh, nvdim=4, value=(1, 2, 3, 4))
        >>> fft_field = field.rfftn()
        >>> fft_field.nvdim
        4
        >>> fft_field.vdims
        ['ft_v0', 'ft_v1', 'ft_v2', 'ft_v3']

        See also
        --------
        :py:func:`~discretisedfield.Field.fftn`
        :py:func:`~discretisedfield.Field.ifftn`
        :py:func:`~discretisedfield.Field.irfftn`
        :py:func:`~discretisedfield.Mesh.fftn`
        :py:func:`~discretisedfield.Mesh.ifftn`

        """
        mesh = self.mesh.fftn(rfft=True)

        axes = range(self.mesh.region.ndim)
        ft = spfft.fftshift(
            spfft.rfftn(self.array, axes=axes, **kwargs),
            axes=axes[:-1],
        )

        return self._fftn(mesh=mesh, array=ft, ifftn=False)

    def irfftn(self, shape=None, **kwargs):
        """Performs an N-dimensional discrete inverse real Fast Fourier Transform
        (irFFT) on the field.

        This method applies an irFFT to the field and the underying mesh, transforming
        it from a frequency domain into a spatial domain. During this process, any
        information about subregions within the field is lost.

        Parameters
        ----------
        **kwargs

            Keyword arguments passed directly to the irFFT function provided by
            SciPy's fftpack :py:func:`scipy.fft.irfftn`.

        Returns
        -------
        discretisedfield.Field

            A field representing the inverse Fourier transform of the original field.
            This returned field is in the spatial domain and has value dimensions
            labeled with the ``ft_`` removed if the vdims of the original field
            started with ``ft_``.

        Examples
        --------
        1. Create a mesh and perform an irFFT.
        >>> import discretisedfield as df
        >>> mesh = df.Mesh(p1=0, p2=10, cell=2)
        >>> field = df.Field(mesh, nvdim=3, value=(1, 2, 3))
        >>> ifft_field = field.fftn().irfftn()
        >>> ifft_field.nvdim
        3
        >>> ifft_field.vdims
        ['x', 'y', 'z']

        2. Create a 3D mesh and perform an irFFT.
        >>> import discretisedfield as df
        >>> mesh = df.Mesh(p1=(0, 0, 0), p2=(10, 10, 10), cell=(2, 2, 2))
        >>> field = df.Field(mesh, nvdim=4, value=(1, 2, 3, 4))
        >>> fft_field = field.fftn().irfftn()
        >>> fft_field.nvdim
        4
        >>> fft_field.vdims
        ['v0', 'v1', 'v2', 'v3']

        See also
        --------
        :py:func:`~discretisedfield.Field.fftn`
        :py:func:`~discretisedfield.Field.ifftn`
        :py:func:`~discretisedfield.Field.rfftn`
        :py:func:`~discretisedfield.Mesh.fftn`
        :py:func:`~discretisedfield.Mesh.ifftn`

        """
        mesh = self.mesh.ifftn(rfft=True, shape=shape)

        axes = range(self.mesh.region.ndim)
        ft = spfft.irfftn(
            spfft.ifftshift(self.array, axes=axes[:-1]),
            axes=axes,
            s=shape,
            **kwargs,
        )

        return self._fftn(mesh=mesh, array=ft, ifftn=True)

    def _fftn(self, mesh, array, ifftn=False):
        if self.vdims is None:
            new_vdims = None
            new_vdim_mapping = None
        else:
            # vdims
            if ifftn:
                new_vdims = [
                    vdim[3:] if vdim.startswith("ft_") else vdim for vdim in self.vdims
                ]
            else:
                new_vdims = [f"ft_{vdim}" for vdim in self.vdims]
            # vdim mapping
            new_vdim_mapping = {}
            for vdim, new_vdim in zip(self.vdims, new_vdims):
                if vdim in self.vdim_mapping:
                    if ifftn:
                        new_vdim_mapping[new_vdim] = (
                            self.vdim_mapping[vdim][2:]
                            if self.vdim_mapping[vdim].startswith("k_")
                            else self.vdim_mapping[vdim]
                        )
                    else:
                        new_vdim_mapping[new_vdim] = f"k_{self.vdim_mapping[vdim]}"

        return self.__class__(
            mesh,
            nvdim=self.nvdim,
            value=array,
            vdims=new_vdims,
            unit=self.unit,
            vdim_mapping=new_vdim_mapping,
        )

    @property
    def real(self):
        """Real part of complex field."""
        return self.__class__(
            self.mesh,
            nvdim=self.nvdim,
            value=self.array.real,
            vdims=self.vdims,
            unit=self.unit,
            valid=self.valid,
            vdim_mapping=self.vdim_mapping,
        )

    @property
    def imag(self):
        """Imaginary part of complex field."""
        return self.__class__(
            self.mesh,
            nvdim=self.nvdim,
            value=self.array.imag,
            vdims=self.vdims,
            unit=self.unit,
            valid=self.valid,
            vdim_mapping=self.vdim_mapping,
        )

    @property
    def phase(self):
        """Phase of complex field."""
        return self.__class__(
            self.mesh,
            nvdim=self.nvdim,
            value=np.angle(self.array),
            vdims=self.vdims,
            valid=self.valid,
            vdim_mapping=self.vdim_mapping,
        )

    @property
    def abs(self):
        """Absolute value of complex field."""
        return self.__class__(
            self.mesh,
            nvdim=self.nvdim,
            value=np.abs(self.array),
            vdims=self.vdims,
            valid=self.valid,
            vdim_mapping=self.vdim_mapping,
        )

    @property
    def conjugate(self):
        """Complex conjugate of complex field."""
        return self.__class__(
            self.mesh,
            nvdim=self.nvdim,
            value=self.array.conjugate(),
            vdims=self.vdims,
            unit=self.unit,
            valid=self.valid,
            vdim_mapping=self.vdim_mapping,
        )

    # TODO check and write tests
    def __array_ufunc__(self, ufunc, method, *inputs, **kwargs):
        """Field class support for numpy ``ufuncs``."""
        # See reference implementation at:
        # https://numpy.org/doc/stable/reference/generated/numpy.lib.mixins.NDArrayOperatorsMixin.html#numpy.lib.mixins.NDArrayOperatorsMixin
        for x in inputs:
            if not isinstance(x, (Field, np.ndarray, numbers.Number)):
                raise NotImplementedError()
        out = kwargs.get("out", ())
        if out:
            for x in out:
                if not isinstance(x, Field):
                    raise NotImplementedError()

        mesh = [x.mesh for x in inputs if isinstance(x, Field)]
        for m in mesh:
            if not self.mesh.allclose(m):
                raise ValueError(
                    "To perform this operation all fields must have the same mesh."
                )
        inputs = tuple(x.array if isinstance(x, Field) else x for x in inputs)
        if out:
            kwargs["out"] = tuple(x.array for x in out)

        result = getattr(ufunc, method)(*inputs, **kwargs)
        if isinstance(result, tuple):
            if len(result) != len(mesh):
                raise NotImplementedError()
            try:
                return tuple(
                    self.__class__(
                        m,
                        nvdim=x.shape[-1],
                        value=x,
                        vdims=self.vdims,
                        vdim_mapping=self.vdim_mapping,
                    )
                    for x, m in zip(result, mesh)
                )
            except Exception as e:
                raise NotImplementedError() from e
        elif method == "at":
            return None
        else:
            if not np.array_equal(result.shape[:-1], self.mesh.n):
                raise NotImplementedError()
            try:
                return self.__class__(
                    self.mesh,
                    nvdim=result.shape[-1],
                    value=result,
                    vdims=self.vdims,
                    vdim_mapping=self.vdim_mapping,
                )
            except Exception as e:
                raise NotImplementedError() from e

    def to_xarray(self, name="field", unit=None):
        """Field value as ``xarray.DataArray``.

        The function returns an ``xarray.DataArray`` with the dimensions
        ``self.mesh.region.dims`` and ``vdims`` (only if ``field.nvdim > 1``). The
        coordinates of the geometric dimensions are derived from ``self.mesh.points``,
        and for vector field components from ``self.vdims``. Addtionally,
        the values of ``self.mesh.cell``, ``self.mesh.region.pmin``, and
        ``self.mesh.region.pmax`` are stored as ``cell``, ``pmin``, and ``pmax``
        attributes of the DataArray. The ``unit`` attribute of geometric
        dimensions is set to the respective strings in ``self.mesh.region.units``.

        The name and unit of the field ``DataArray`` can be set by passing
        ``name`` and ``unit``. If the type of value passed to any of the two
        arguments is not ``str``, then a ``TypeError`` is raised.

        Parameters
        ----------
        name : str, optional

            String to set name of the field ``DataArray``.

        unit : str, optional

            String to set units of the field ``DataArray``.

        Returns
        -------
        xarray.DataArray

            Field values DataArray.

        Raises
        ------
        TypeError

            If either ``name`` or ``unit`` argument is not a string.

        Examples
        --------
        1. Create a field

        >>> import discretisedfield as df
        ...
        >>> p1 = (0, 0, 0)
        >>> p2 = (10, 10, 10)
        >>> cell = (1, 1, 1)
        >>> mesh = df.Mesh(p1=p1, p2=p2, cell=cell)
        >>> field = df.Field(mesh=mesh, nvdim=3, value=(1, 0, 0), norm=1.)
        ...
        >>> field
        Field(...)

        2. Create `xarray.DataArray` from field

        >>> xa = field.to_xarray()
        >>> xa
        <xarray.DataArray 'field' (x: 10, y: 10, z: 10, vdims: 3)>...

        3. Select values of `x` component

        >>> xa.sel(vdims='x')
        <xarray.DataArray 'field' (x: 10, y: 10, z: 10)>...

        """
        if not isinstance(name, str):
            msg = "Name argument must be a string."
            raise TypeError(msg)

        if unit is not None and not isinstance(unit, str):
            msg = "Unit argument must be a string."
            raise TypeError(msg)

        axes = self.mesh.region.dims

        data_array_coords = {axis: getattr(self.mesh.cells, axis) for axis in axes}

        geo_units_dict = dict(zip(axes, self.mesh.region.units))

        if self.nvdim > 1:
            data_array_dims = axes + ("vdims",)
            if self.vdims is not None:
                data_array_coords["vdims"] = self.vdims
            field_array = self.array
        else:
            data_array_dims = axes
            field_array = np.squeeze(self.array, axis=-1)

        data_array = xr.DataArray(
            field_array,
            dims=data_array_dims,
            coords=data_array_coords,
            name=name,
            attrs=dict(
                units=unit or self.unit,
                cell=self.mesh.cell,
                pmin=self.mesh.region.pmin,
                pmax=self.mesh.region.pmax,
                nvdim=self.nvdim,
                tolerance_factor=self.mesh.region.tolerance_factor,
            ),
        )

        # TODO save vdim_mapping

        for dim in geo_units_dict:
            data_array[dim].attrs["units"] = geo_units_dict[dim]

        return data_array

    @classmethod
    def from_xarray(cls, xa):
        """Create ``discretisedfield.Field`` from ``xarray.DataArray``

        The class method accepts an ``xarray.DataArray`` as an argument to
        return a ``discretisedfield.Field`` object. The first n (or n-1) dimensions of
        the DataArray are considered geometric dimensions of a scalar (or vector) field.
        In case of a vector field, the last dimension must be named ``vdims``. The
        DataArray attribute ``nvdim`` determines whether it is a scalar or a vector
        field (i.e. ``nvdim = 1`` is a scalar field and ``nvdim >= 1`` is a vector
        field). Hence, ``nvdim`` attribute must be present, greater than or equal to
        one, and of an integer type.

        The DataArray coordinates corresponding to the geometric dimensions represent
        the discretisation along the respective dimension and must have equally spaced
        values. The coordinates of ``vdims`` represent the name of field components
        (e.g. ['x', 'y', 'z'] for a 3D vector field).

        Additionally, it is expected to have ``cell``, ``p1``, and ``p2`` attributes for
        creating the right mesh for the field; however, in the absence of these, the
        coordinates of the geometric axes dimensions are utilized. It should be noted
        that ``cell`` attribute is required if any of the geometric directions has only
        a single cell.

        Parameters
        ----------
        xa : xarray.DataArray

            DataArray to create Field.

        Returns
        -------
        discretisedfield.Field

            Field created from DataArray.

        Raises
        ------
        TypeError

            - If argument is not ``xarray.DataArray``.
            - If ``nvdim`` attribute in not an integer.

        KeyError

            - If at least one of the geometric dimension coordinates has a single
              value and ``cell`` attribute is missing.
            - If ``nvdim`` attribute is absent.

        ValueError

            - If DataArray does not have a dimension ``vdims`` when attribute ``nvdim``
              is grater than one.
            - If coordinates of geometrical dimensions are not equally spaced.

        Examples
        --------
        1. Create a DataArray

        >>> import xarray as xr
        >>> import numpy as np
        ...
        >>> xa = xr.DataArray(np.ones((20, 20, 20, 3), dtype=float),
        ...                   dims = ['x', 'y', 'z', 'vdims'],
        ...                   coords = dict(x=np.arange(0, 20),
        ...                                 y=np.arange(0, 20),
        ...                                 z=np.arange(0, 20),
        ...                                 vdims=['x', 'y', 'z']),
        ...                   name = 'mag',
        ...                   attrs = dict(cell=[1., 1., 1.],
        ...                                p1=[1., 1., 1.],
        ...                                p2=[21., 21., 21.],
        ...                                nvdim=3),)
        >>> xa
        <xarray.DataArray 'mag' (x: 20, y: 20, z: 20, vdims: 3)>...

        2. Create Field from DataArray

        >>> import discretisedfield as df
        ...
        >>> field = df.Field.from_xarray(xa)
        >>> field
        Field(...)
        >>> field.mean()
        array([1., 1., 1.])

        """
        if not isinstance(xa, xr.DataArray):
            raise TypeError("Argument must be a xarray.DataArray.")

        if "nvdim" not in xa.attrs:
            raise KeyError(
                'The DataArray must have an attribute "nvdim" to identify a scalar or'
                " a vector field."
            )

        if xa.attrs["nvdim"] < 1:
            raise ValueError('"nvdim" attribute must be greater or equal to 1.')
        elif not isinstance(xa.attrs["nvdim"], numbers.Integral):
            raise TypeError("The value of nvdim must be an integer.")

        if xa.attrs["nvdim"] > 1 and "vdims" not in xa.dims:
            raise ValueError(
                'The DataArray must have a dimension "vdims" when "nvdim" attribute is'
                " greater than 1."
            )

        dims_list = [dim for dim in xa.dims if dim != "vdims"]

        for i in dims_list:
            # relative comparison only: coordinates are often of the order of 1e-9,
            # far below numpy's default absolute tolerance
            if xa[i].values.size > 1 and not np.allclose(
                np.diff(xa[i].values), np.diff(xa[i].values).mean(), atol=0
            ):
                raise ValueError(f"Coordinates of {i} must be equally spaced.")

        try:
            cell = xa.attrs["cell"]
        except KeyError:
            if any(len_ == 1 for len_ in xa.values.shape[:-1]):
                raise KeyError(
                    "DataArray must have a 'cell' attribute if any "
                    "of the geometric directions has a single cell."
                ) from None
            cell = [np.diff(xa[i].values).mean() for i in dims_list]

        p1 = (
            xa.attrs["pmin"]
            if "pmin" in xa.attrs
            else [xa[i].values[0] - c / 2 for i, c in zip(dims_list, cell)]
        )
        p2 = (
            xa.attrs["pmax"]
            if "pmax" in xa.attrs
            else [xa[i].values[-1] + c / 2 for i, c in zip(dims_list, cell)]
        )

        if any("units" not in xa[i].attrs for i in dims_list):
            region = df.Region(p1=p1, p2=p2, dims=dims_list)
            mesh = df.Mesh(region=region, cell=cell)
        else:
            region = df.Region(
                p1=p1, p2=p2, dims=dims_list, units=[xa[i].units for i in dims_list]
            )
            mesh = df.Mesh(region=region, cell=cell)

        if "tolerance_factor" in xa.attrs:
            mesh.region.tolerance_factor = xa.attrs["tolerance_factor"]

        vdims = xa.vdims.values if "vdims" in xa.coords else None
        nvdim = xa.attrs["nvdim"]
        val = np.expand_dims(xa.values, axis=-1) if nvdim == 1 else xa.values
        # print(val.shape)
        # TODO load vdim_mapping
        return cls(
            mesh=mesh, nvdim=nvdim, value=val, vdims=vdims, dtype=xa.values.dtype
        )

    @functools.singledispatchmethod
    def _as_array(self, val, mesh, nvdim, dtype):
        raise TypeError(f"Unsupported type {type(val)}.")

    # to avoid str being interpreted as iterable
    @_as_array.register(str)
    def _(self, val, mesh, nvdim, dtype):
        raise TypeError(f"Unsupported type {type(val)}.")

    @_as_array.register(numbers.Complex)
    @_as_array.register(collections.abc.Iterable)
    def _(self, val, mesh, nvdim, dtype):
        if isinstance(val, numbers.Complex) and nvdim > 1 and val != 0:
            raise ValueError(
                f"Wrong dimension 1 provided for value; expected dimension is {nvdim}"
            )

        if isinstance(val, collections.abc.Iterable):
            if nvdim == 1 and np.array_equal(np.shape(val), mesh.n):
                return np.expand_dims(np.array(val, dtype=dtype), axis=-1)
            elif np.shape(val)[-1] != nvdim:
                raise ValueError(
                    f"Wrong dimension {len(val)} provided for value; expected dimension"
                    f" is {nvdim}."
                )
        dtype = dtype or max(np.asarray(val).dtype, np.float64)
        return np.full((*mesh.n, nvdim), val, dtype=dtype)

    @_as_array.register(collections.abc.Callable)
    def _(self, val, mesh, nvdim, dtype):
        # will only be called on user input
        # dtype must be specified by the user for complex values
        array = np.empty((*mesh.n, nvdim), dtype=dtype)
        for index, point in zip(mesh.indices, mesh):
            # Conversion to array and reshaping is required for numpy >= 1.24
            # and for certain inputs, e.g. a tuple of numpy arrays which can e.g. occur
            # for 1d vector fields.
            array[index] = np.asarray(val(point)).reshape(nvdim)
        return array

    @_as_array.register(dict)
    def _(self, val, mesh, nvdim, dtype):
        # will only be called on user input
        # dtype must be specified by the user for complex values
        dtype = dtype or np.float64
        fill_value = (
            val["default"]
            if "default" in val and not callable(val["default"])
            else np.nan
        )
        array = np.full((*mesh.n, nvdim), fill_value, dtype=dtype)

        for subregion in reversed(mesh.subregions.keys()):
            # subregions can overlap, first subregion takes precedence
            try:
                submesh = mesh[subregion]
                subval = val[subregion]
            except KeyError:
                continue  # subregion not in val when implicitly set via "default"
            else:
                slices = mesh.region2slices(submesh.region)
                array[slices] = self._as_array(subval, submesh, nvdim, dtype)

        if np.any(np.isnan(array)):
            # not all subregion keys specified and 'default' is missing or callable
            if "default" not in val:
                raise KeyError(
                    "Key 'default' required if not all subregion keys are specified."
                )
            subval = val["default"]
            for idx in np.argwhere(np.isnan(array[..., 0])):
                # only spatial indices required -> array[..., 0]
                # conversion to array and reshaping similar to "callable" implementation
                array[tuple(idx)] = np.asarray(subval(mesh.index2point(idx))).reshape(nvdim)

        return array


# We cannot register to self (or df.Field) inside the class
@Field._as_array.register(Field)
def _(self, val, mesh, nvdim, dtype):
    if mesh.region not in val.mesh.region:
        raise ValueError(
            f"{val.mesh.region} of the provided field does not "
            f"contain {mesh.region} of the field that is being "
            "created."
        )
    value = (
        val.to_xarray()
        .sel(
            **{dim: getattr(mesh.cells, dim) for dim in mesh.region.dims},
            method="nearest",
        )
        .data
    )
    if nvdim == 1:
        # xarray dataarrays for scalar data are three dimensional
        return value.reshape(*mesh.n, -1)
    return value
