import numpy as np


def integrate(field, direction=None, cumulative=False):
    """Integral.

    This function calls ``integral`` method of the ``discrteisedfield.Field``
    object.

    For details, please refer to :py:func:`~discretisedfield.Field.integral`

    """
    return field.integrate(direction=direction, cumulative=cumulative)


def _1d_diff(order, array, dx):
    """Differentiate 1D array."""

    # Directional derivative cannot be computed if less or an equal number of
    # discretisation cells exists in a specified direction than the order.
    # In that case, a zero array is returned.
    if len(array) < order + 1:
        return np.zeros_like(array)

    if order == 1:
        if len(array) < 3:
            # Second order accuracy is in the center of the array and
            # first order at the boundaries.
            derivative_array = np.gradient(array, dx, edge_order=1)
        else:
            # Second order accuracy at the boundaries.
            derivative_array = np.gradient(array, dx, edge_order=2)

    elif order == 2:
        # The derivative is computed using the central difference
        # this stencil will give incorrect result at the boundary.
        derivative_array = np.convolve(array, [1, -2, 1], "same")
        if len(array) >= 4:
            # Second order accuracy at the boundaries
            # These stencil coefficients are taken from FinDiff.
            derivative_array[0] = 2 * array[0] - 5 * array[1] + 4 * array[2] - array[3]
            derivative_array[-1] = (
                2 * array[-1] - 5 * array[-2] + 4 * array[-3] - array[-4]
            )
        else:
            # First order accuracy at the boundaries
            # These stencil coefficients are taken from FinDiff.
            derivative_array[0] = array[0] - 2 * array[1] + array[2]
            derivative_array[-1] = array[-1] - 2 * array[-2] + array[-3]
        derivative_array = derivative_array / dx**2

    return derivative_array


def _split_array_on_idx(array, loc):
    """Split a 1D array on based on indices.
    For a 100 element array, this method is 15.3 µs ± 63.1 ns
    compared to itertools.groupby which is 70.3 µs ± 719 ns."""
    loc = np.concatenate(([-1], loc, [len(array)]))
    # loc[i] is the location of a False hence we want to start
    # at the next element which is loc[i] + 1.
    # We then create a slice to the next False element which
    # is at loc[i + 1]. If the next False element is the same
    # as the current one, we do not want to create a slice.
    return [
        array[loc[i] + 1 : loc[i + 1]]
        for i in range(len(loc) - 1)
        if loc[i + 1] != loc[i] + 1
    ]


def _split_diff_combine(array, valid, order, dx):
    """Split a 1D array (with spacing dx)
    based on contiguous valid values,
    compute the derivative of certain order,
    and recombine the array."""
    # Find indices of invalid cells. The [0] is needed because
    # np.where returns a tuple of ndarray and we are only ever
    # in the case where we have a single element tuple.
    idx = np.where(np.invert(valid))[0]
    split = _split_array_on_idx(array, idx)
    diff = [_1d_diff(order, arr, dx) for arr in split]
    out = np.zeros_like(array)
    if len(diff) == 0:
        return out
    else:
        out[valid] = np.concatenate(diff)
        return out
