import itertools
import warnings

import numpy as np
from scipy import ndimage

import discretisedfield as df
import discretisedfield.util as dfu


def topological_charge_density(field, /, method="continuous"):
    r"""Topological charge density.

    This method computes the topological charge density for a vector field having three
    value components (i.e. ``nvdim=3``). Two different methods are available and can be
    selected using ``method``:

    1. Continuous method for calculation of the topological charge density in xy-plane:

        .. math::

            q = \frac{1}{4\pi} \mathbf{n} \cdot \left(\frac{\partial
            \mathbf{n}}{\partial x} \times \frac{\partial
            \mathbf{n}}{\partial y} \right),

        where :math:`\mathbf{n}` is the orientation field.

    2. Berg-Luescher method. Details can be found in:

        1. B. Berg and M. Luescher. Definition and statistical distributions of
        a topological number in the lattice O(3) sigma-model. Nuclear Physics B
        190 (2), 412-424 (1981).

        2. J.-V. Kim and J. Mulkers. On quantifying the topological charge in
        micromagnetics using a lattice-based approach. IOP SciNotes 1, 025211
        (2020).

    Topological charge is defined on two-dimensional geometries only. Therefore,
    the field must be "sliced" using the ``discretisedfield.Field.sel``
    method. If the field is not three-dimensional or the field is not sliced,
    ``ValueError`` is raised.

    Parameters
    ----------
    field : discretisedfield.Field

        Vector field.

    method : str, optional

        Method how the topological charge is computed. It can be ``continuous``
        or ``berg-luescher``. Defaults to ``continuous``.

    Returns
    -------
    discretisedfield.Field

        Topological charge density scalar field.

    Raises
    ------
    ValueError

        If the field is not three-dimensional or the field is not sliced.

    Example
    -------
    1. Compute topological charge density of a spatially constant vector field.

    >>> import discretisedfield as df
    >>> import discretisedfield.tools as dft
    ...
    >>> p1 = (0, 0, 0)
    >>> p2 = (10, 10, 10)
    >>> cell = (2, 2, 2)
    >>> mesh = df.Mesh(p1=p1, p2=p2, cell=cell)
    >>> f = df.Field(mesh, nvdim=3, value=(1, 1, -1))
    ...
    >>> dft.topological_charge_density(f.sel('z'))
    Field(...)
    >>> dft.topological_charge_density(f.sel('z'), method='berg-luescher')
    Field(...)

    2. An attempt to compute the topological charge density of a scalar field.

    >>> f = df.Field(mesh, nvdim=1, value=12)
    >>> dft.topological_charge_density(f.sel('z'))
    Traceback (most recent call last):
    ...
    ValueError: ...

    3. Attempt to compute the topological charge density of a vector field,
    which is not sliced.

    >>> f = df.Field(mesh, nvdim=3, value=(1, 2, 3))
    >>> dft.topological_charge_density(f)
    Traceback (most recent call last):
    ...
    ValueError: ...

    .. seealso:: :py:func:`~discretisedfield.tools.topological_charge`

    """
    if field.nvdim != 3:
        raise ValueError(
            f"Cannot compute topological charge density for {field.nvdim=} field."
        )

    if field.mesh.region.ndim != 2:
        raise ValueError(
            "The topological charge density can only be computed on fields with 2"
            f" spatial dimensions, not {field.mesh.region.ndim=}."
        )

    of = field.orientation  # unit field - orientation field

    if method == "continuous":
        axis1 = field.mesh.region.dims[0]
        axis2 = field.mesh.region.dims[1]
        return 1 / (4 * np.pi) * of.dot(of.diff(axis1).cross(of.diff(axis2)))

    elif method == "berg-luescher":
        q = df.Field(field.mesh, nvdim=1, valid=of.valid)

        # Area of a single triangle
        area = 0.5 * field.mesh.cell[0] * field.mesh.cell[1]

        for i, j in itertools.product(range(of.mesh.n[0]), range(of.mesh.n[1])):
            if of.valid[i, j]:
                v0 = of.array[i, j]
                # Extract 4 neighbouring vectors (if they exist)
                v1 = (
                    of.array[i + 1, j]
                    if i + 1 < of.mesh.n[0] and of.valid[i + 1, j]
                    else None
                )
                v2 = (
                    of.array[i, j + 1]
                    if j + 1 < of.mesh.n[1] and of.valid[i, j + 1]
                    else None
                )
                v3 = of.array[i - 1, j] if i - 1 >= 0 and of.valid[i - 1, j] else None
                v4 = of.array[i, j - 1] if j - 1 >= 0 and of.valid[i, j - 1] else None

                charge = 0
                triangle_count = 0

                if v1 is not None and v2 is not None:
                    triangle_count += 1
                    charge += dfu.bergluescher_angle(v0, v1, v2)

                if v2 is not None and v3 is not None:
                    triangle_count += 1
                    charge += dfu.bergluescher_angle(v0, v2, v3)

                if v3 is not None and v4 is not None:
                    triangle_count += 1
                    charge += dfu.bergluescher_angle(v0, v3, v4)

                if v4 is not None and v1 is not None:
                    triangle_count += 1
                    charge += dfu.bergluescher_angle(v0, v4, v1)

                if triangle_count > 0:
                    q.array[i, j] = charge / (area * triangle_count)

        return q

    else:
        raise ValueError(
            f"'method' can be either 'continuous' or 'berg-luescher', not '{method}'."
        )


def topological_charge(field, /, method="continuous", absolute=False):
    """Topological charge.

    This function computes topological charge for a vector field of three dimensions
    (i.e. ``nvdim=3``). There are two possible methods, which can be chosen using
    ``method`` parameter. For details on method, please refer to
    :py:func:`~discretisedfield.tools.topological_charge_density`. Absolute
    topological charge given as integral over the absolute values of the
    topological charge density can be computed by passing ``absolute=True``.

    Topological charge is defined on two-dimensional samples. Therefore,
    the field must be "sliced" using ``discretisedfield.Field.sel``
    method. If the field is not three-dimensional or the field is not
    sliced and ``ValueError`` is raised.

    Parameters
    ----------
    field : discretisedfield.Field

        Vector field.

    method : str, optional

        Method how the topological charge is computed. It can be ``continuous``
        or ``berg-luescher``. Defaults to ``continuous``.

    absolute : bool, optional

        If ``True`` the absolute topological charge is computed.
        Defaults to ``False``.

    Returns
    -------
    float

        Topological charge.

    Raises
    ------
    ValueError

        If the field is not three-dimensional or the field is not sliced.

    Example
    -------
    1. Compute the topological charge of a spatially constant vector field
    (zero value is expected).

    >>> import discretisedfield as df
    >>> import discretisedfield.tools as dft
    ...
    >>> p1 = (0, 0, 0)
    >>> p2 = (10, 10, 10)
    >>> cell = (2, 2, 2)
    >>> mesh = df.Mesh(p1=p1, p2=p2, cell=cell)
    ...
    >>> f = df.Field(mesh, nvdim=3, value=(1, 1, -1))
    >>> dft.topological_charge(f.sel('z'), method='continuous')
    0.0
    >>> dft.topological_charge(f.sel('z'), method='continuous',
    ...                                      absolute=True)
    0.0
    >>> dft.topological_charge(f.sel('z'), method='berg-luescher')
    0.0
    >>> dft.topological_charge(f.sel('z'), method='berg-luescher',
    ...                                      absolute=True)
    0.0

    2. Attempt to compute the topological charge of a scalar field.

    >>> f = df.Field(mesh, nvdim=1, value=12)
    >>> dft.topological_charge(f.sel('z'))
    Traceback (most recent call last):
    ...
    ValueError: ...

    3. Attempt to compute the topological charge of a vector field, which
    is not sliced.

    >>> f = df.Field(mesh, nvdim=3, value=(1, 2, 3))
    >>> dft.topological_charge(f)
    Traceback (most recent call last):
    ...
    ValueError: ...

    .. seealso::

        :py:func:`~discretisedfield.tools.topological_charge_density`

    """
    if field.nvdim != 3:
        raise ValueError(f"Cannot compute topological charge for {field.nvdim=} field.")

    if field.mesh.region.ndim != 2:
        raise ValueError(
            "The topological charge can only be computed on fields with 2"
            f" spatial dimensions, not {field.mesh.region.ndim=}."
        )

    q = topological_charge_density(field, method=method)
    if absolute:
        return abs(q).integrate().item()
    else:
        return q.integrate().item()


def emergent_magnetic_field(field):
    r"""Emergent magnetic field.

    Emergent magnetic field for a (magnetic) unit vector field
    :math:`\boldsymbol{m}` is defined as:

    .. math::

        F_{kl} = \boldsymbol{m} \cdot (\partial_k \boldsymbol{m}
        \times \partial_l \boldsymbol{m})

    Details are given in Volovik, G. E., Rysti, J., Mäkinen, J. T. & Eltsov,
    V. B. Spin, Orbital, Weyl and Other Glasses in Topological Superfluids. J
    Low Temp Phys 196, 82–101 (2019).

    Parameters
    ----------
    field : discretisedfield.Field

        Vector field.

    Returns
    -------
    discretisedfield.Field

        Emergent magnetic field.

    Raises
    ------
    ValueError

        If the field is not three-dimensional.

    Example
    -------
    1. Compute topological charge density of a spatially constant vector field.

    >>> import discretisedfield as df
    >>> import discretisedfield.tools as dft
    ...
    >>> p1 = (0, 0, 0)
    >>> p2 = (10, 10, 10)
    >>> cell = (2, 2, 2)
    >>> mesh = df.Mesh(p1=p1, p2=p2, cell=cell)
    >>> f = df.Field(mesh, nvdim=3, value=(1, 1, -1))
    ...
    >>> dft.emergent_magnetic_field(f)
    Field(...)

    """
    if field.nvdim != 3:
        raise ValueError(
            f"Cannot compute emergent magnetic field for {field.nvdim=}"
            " field. It must be three-dimensional vector field."
        )
    elif field.mesh.region.ndim != 3:
        raise ValueError(
            f"Cannot compute emergent magnetic field for {field.mesh.region.ndim=}"
            " region. It must be three-dimensional region."
        )

    geo_dims = field.mesh.region.dims

    F1 = field.dot(field.diff(geo_dims[1]).cross(field.diff(geo_dims[2])))
    F2 = field.dot(field.diff(geo_dims[2]).cross(field.diff(geo_dims[0])))
    F3 = field.dot(field.diff(geo_dims[0]).cross(field.diff(geo_dims[1])))

    return F1 << F2 << F3


def neighbouring_cell_angle(field, /, direction, units="rad"):
    """Calculate angles between neighbouring cells.

    This method calculates the angle between value vectors in all
    neighbouring cells. The calculation is only possible for vector fields of three
    dimensions (i.e. ``nvdim=3``). Angles are computed in degrees if ``units='deg'`` and
    in radians if ``units='rad'``.

    The resulting field has one discretisation cell less in the specified
    direction.

    Parameters
    ----------
    field : discretisedfield.Field

        Vector field.

    direction : str

        The spatial direction in which the angles are calculated.

    units : str, optional

        Angles are computed in degrees if ``units='deg'`` and in radians if
        ``units='rad'``. Defaults to ``'rad'``.

    Returns
    -------
    discretisedfield.Field

        A scalar field with angles. In the given direction the number of cells
        is reduced by one compared to the given field.

    Raises
    ------
    ValueError

        If ``field`` is not a vector field, or ``direction`` or ``units`` is
        invalid.

    Examples
    --------
    1. Computing the angle between neighbouring cells in z-direction.

    >>> import discretisedfield as df
    >>> import discretisedfield.tools as dft
    ...
    >>> p1 = (0, 0, 0)
    >>> p2 = (100, 100, 100)
    >>> n = (10, 10, 10)
    >>> mesh = df.Mesh(p1=p1, p2=p2, n=n)
    >>> field = df.Field(mesh, nvdim=3, value=(0, 1, 0))
    ...
    >>> dft.neighbouring_cell_angle(field, direction='z')
    Field(...)

    """
    if not field.nvdim == 3:
        raise ValueError(
            f"Cannot compute value angles for a field with {field.nvdim=}."
            " Field must be three-dimensional."
        )

    if direction not in field.mesh.region.dims:
        raise ValueError(f"Cannot compute value angles for {direction=}.")

    if units not in ["rad", "deg"]:
        raise ValueError(f"Units {units=} not supported.")

    # Orientation field
    fo = field.orientation

    sclices_one = list()
    sclices_two = list()
    delta_p = list()
    for dim in fo.mesh.region.dims:
        if dim == direction:
            sclices_one.append(slice(-1))
            sclices_two.append(slice(1, None))
            delta_p.append(getattr(fo.mesh, f"d{dim}") / 2.0)
        else:
            sclices_one.append(slice(None))
            sclices_two.append(slice(None))
            delta_p.append(0)
    dot_product = np.einsum(
        "...j,...j->...", fo.array[(*sclices_one,)], fo.array[(*sclices_two,)]
    )

    # Define new mesh.
    p1 = np.add(field.mesh.region.pmin, delta_p)
    p2 = np.subtract(field.mesh.region.pmax, delta_p)
    mesh = df.Mesh(p1=p1, p2=p2, cell=field.mesh.cell)

    angles = np.arccos(np.clip(dot_product, -1.0, 1.0))
    if units == "deg":
        angles = np.degrees(angles)

    return df.Field(mesh, nvdim=1, value=angles.reshape(*angles.shape, 1))


def max_neighbouring_cell_angle(field, /, units="rad"):
    """Calculate maximum angle between neighbouring cells in all directions.

    This function computes an angle between a cell and all its six neighbouring
    cells and assigns the maximum to that cell. The calculation is only
    possible for vector fields of three dimensions (i.e. ``nvdim=3``). Angles are
    computed in degrees if ``units='deg'`` and in radians if ``units='rad'``.

    The resulting field has one discretisation cell less in the specified
    direction.

    Parameters
    ----------
    field : discretisedfield.Field

        Vector field.

    units : str, optional

        Angles are computed in degrees if ``units='deg'`` and in radians if
        ``units='rad'``. Defaults to ``'rad'``.

    Returns
    -------
    discretisedfield.Field

        A scalar field with maximum angles.

    Examples
    --------
    1. Computing the maximum angle between neighbouring cells.

    >>> import discretisedfield as df
    >>> import discretisedfield.tools as dft
    ...
    >>> p1 = (0, 0, 0)
    >>> p2 = (100, 100, 100)
    >>> n = (10, 10, 10)
    >>> mesh = df.Mesh(p1=p1, p2=p2, n=n)
    >>> field = df.Field(mesh, nvdim=3, value=(0, 1, 0))
    ...
    >>> dft.max_neighbouring_cell_angle(field)
    Field(...)

    """
    max_angles = np.zeros((*field.mesh.n, 2 * field.mesh.region.ndim))
    for i, dim in enumerate(field.mesh.region.dims):
        slices_one = [
            slice(1, None) if i == j else slice(None)
            for j in range(field.mesh.region.ndim)
        ]
        slices_two = [
            slice(-1) if i == j else slice(None) for j in range(field.mesh.region.ndim)
        ]
        max_angles[(*slices_one, 2 * i)] = neighbouring_cell_angle(
            field, dim, units=units
        ).array.squeeze()
        max_angles[(*slices_two, (2 * i) + 1)] = neighbouring_cell_angle(
            field, dim, units=units
        ).array.squeeze()

    max_angles = max_angles.max(axis=-1, keepdims=True)

    return df.Field(field.mesh, nvdim=1, value=max_angles)


def count_large_cell_angle_regions(field, /, min_angle, direction=None, units="rad"):
    """Count regions with large angles between neighbouring cells.

    This method counts regions, where the angle between neighbouring
    cells is above the given threshold. If ``direction`` is not specified
    the maximum of all neighbouring cells is used, otherwise only neighbouring
    cells in the given direction are taken into account. The minimum angle can
    be specified both in radians and degrees, depending on ``units``.

    Parameters
    ----------
    field : discretisedfield.Field

        Vector field.

    min_angle : numbers.Real

        Minimum angle to count. Can be either radians or degrees depending
        on ``units``.

    direction : str, optional

        Direction of neighbouring cells. Can be ``None`` or one of the geometric
        dimensions. If ``None``, all directions are taken into account.
        Defaults to ``None``.

    units : str, optional

        Unit of ``min_angle``. Can be ``rad`` for radians or ``deg`` for
        degrees. Defaults to ``rad``.

    Returns
    -------
    int

        Number of regions.

    Examples
    --------
    1. Counting regions depending on all directions.

    >>> import discretisedfield as df
    >>> import discretisedfield.tools as dft
    ...
    >>> p1 = (0, 0, 0)
    >>> p2 = (100, 100, 100)
    >>> n = (10, 10, 10)
    >>> mesh = df.Mesh(p1=p1, p2=p2, n=n)
    >>> field = df.Field(mesh, nvdim=3, \
                         value=lambda p: (0, 0, 1) if p[0] < 50 \
                         else (0, 0, -1))
    ...
    >>> dft.count_large_cell_angle_regions(field, min_angle=90, units='deg')
    1

    2. Counting regions depending on a single direction.

    >>> import discretisedfield as df
    >>> import discretisedfield.tools as dft
    ...
    >>> p1 = (0, 0, 0)
    >>> p2 = (100, 100, 100)
    >>> n = (10, 10, 10)
    >>> mesh = df.Mesh(p1=p1, p2=p2, n=n)
    >>> field = df.Field(mesh, nvdim=3, \
                         value=lambda p: (0, 0, 1) if p[0] < 50 \
                                                   else (0, 0, -1))
    ...
    >>> dft.count_large_cell_angle_regions(field, min_angle=90, units='deg', \
                                           direction='x')
    1
    >>> dft.count_large_cell_angle_regions(field, min_angle=90, units='deg', \
                                           direction='y')
    0
    """
    if direction is None:
        cell_angles = max_neighbouring_cell_angle(field, units=units).array
    else:
        cell_angles = neighbouring_cell_angle(
            field, direction=direction, units=units
        ).array
    _, num_features = ndimage.label(cell_angles > min_angle)
    return num_features


def count_bps(field, /, direction):
    """Bloch point count and arrangement.

    Function to obtain information about Bloch point number and arrangement.
    The calculations are based on emergent magnetic field. The normalised
    volume integral over subvolumes, increasing cell by cell in the given
    ``direction`` is computed to obtain the local number of Bloch points at
    each point in the given ``direction``. Bloch point count and arangement
    are obtained by summing jumps in the local number of Bloch points.

    The results are:

    - Total number of Bloch points.
    - Number of head-to-head Bloch points.
    - Number of tail-to-tail Bloch points.
    - Arrangement of Bloch points in the given ``direction``. Starting from the
      lower end the local Bloch point count and the number of cells over which
      it stays constant are reported.

    Parameters
    ----------
    field : discretisedfield.Field

        Vector field.

    direction : str, optional

        Geometric direction in which to compute arrangement.

    Returns
    -------
    dict

        Dictionary containing information about BPs.

    Examples
    --------
    """
    if field.mesh.region.ndim != 3:
        raise ValueError(f"The region must be 3D, not {field.mesh.region.ndim}D.")
    elif field.nvdim != 3:
        raise ValueError(f"The field must be 3D vector, not {field.nvdim}D.")
    elif direction not in field.mesh.region.dims:
        raise ValueError(
            f"The specified direction ({direction}) must be one of the"
            f" geometric dimensions {field.mesh.region.dims}."
        )

    F_div = emergent_magnetic_field(field.orientation).div

    averaged = [dim for dim in field.mesh.region.dims if dim != direction]

    F_red = F_div.integrate(direction=averaged[0]).integrate(direction=averaged[1])
    F_int = F_red.integrate(direction=direction, cumulative=True)
    bp_number = (F_int / (4 * np.pi)).array.squeeze().round()
    bp_count = bp_number[1:] - bp_number[:-1]

    results = {}
    results["bp_number"] = abs(bp_count).sum().item()
    results["bp_number_hh"] = abs(bp_count[bp_count < 0].sum()).item()
    results["bp_number_tt"] = bp_count[bp_count > 0].sum().item()

    bp_number = bp_number.tolist()
    # pattern = list([<local BP_count>, <repetitions>])
    pattern = [[bp_number[0], 1]]
    for q_val in bp_number[1:]:
        if q_val == pattern[-1][0]:
            pattern[-1][1] += 1
        else:
            pattern.append([q_val, 1])
    results[f"bp_pattern_{direction}"] = str(pattern)

    return results


def _demag_tensor_field_based(mesh):
    """Fourier transform of the demag tensor.

    Computes the demag tensor in Fourier space. Only the six different
    components Nxx, Nyy, Nzz, Nxy, Nxz, Nyz are returned.

    This version is using discretisedfield which makes it easy to understand
    but slow compared to the numpy version. (The reason is the array
    initialisation which is basically a large for-loop.) For actual use the
    numpy version should be used. This version is kept as a reference.

    Parameters
    ----------
    mesh : discretisedfield.Mesh
        Mesh to compute the demag tensor on.

    Returns
    -------
    discretisedfield.Field
        Demag tensor in Fourier space.

    """
    p1 = [(-i + 1) * j - j / 2 for i, j in zip(mesh.n, mesh.cell)]
    p2 = [(i - 1) * j + j / 2 for i, j in zip(mesh.n, mesh.cell)]
    n = [2 * i - 1 for i in mesh.n]
    mesh_new = df.Mesh(p1=p1, p2=p2, n=n)

    return df.Field(
        mesh_new,
        nvdim=6,
        value=_N(mesh_new),
        vdims=["xx", "yy", "zz", "xy", "xz", "yz"],
    ).fftn()


def demag_tensor(mesh):
    """Fourier transform of the demag tensor.

    Computes the demag tensor in Fourier space. Only the six different
    components Nxx, Nyy, Nzz, Nxy, Nxz, Nyz are returned.

    The implementation is based on Albert et al. JMMM 387 (2015)
    https://doi.org/10.1016/j.jmmm.2015.03.081

    Parameters
    ----------
    mesh : discretisedfield.Mesh
        Mesh to compute the demag tensor on.

    Returns
    -------
    discretisedfield.Field
        Demag tensor in Fourier space.
    """
    warnings.warn(
        "This method is still experimental. Users are strongly encouraged to use oommfc"
        " for the calculation of the demag field.",
        stacklevel=2,
    )
    x = np.linspace(
        (-mesh.n[0] + 1) * mesh.cell[0],
        (mesh.n[0] - 1) * mesh.cell[0],
        mesh.n[0] * 2 - 1,
    )
    y = np.linspace(
        (-mesh.n[1] + 1) * mesh.cell[1],
        (mesh.n[1] - 1) * mesh.cell[1],
        mesh.n[1] * 2 - 1,
    )
    z = np.linspace(
        (-mesh.n[2] + 1) * mesh.cell[2],
        (mesh.n[2] - 1) * mesh.cell[2],
        mesh.n[2] * 2 - 1,
    )
    xx, yy, zz = np.meshgrid(x, y, z, indexing="ij")

    values = np.stack(_N(mesh)((xx, yy, zz)), axis=3)

    p1 = [(-i + 1) * j - j / 2 for i, j in zip(mesh.n, mesh.cell)]
    p2 = [(i - 1) * j + j / 2 for i, j in zip(mesh.n, mesh.cell)]
    n = [2 * i - 1 for i in mesh.n]
    mesh_new = df.Mesh(p1=p1, p2=p2, n=n)

    return df.Field(
        mesh_new, nvdim=6, value=values, vdims=["xx", "yy", "zz", "xy", "xz", "yz"]
    ).fftn()


def demag_field(m, tensor):
    """Calculate the demagnetisation field.

    The calculation of the demag field is based on Albert et al. JMMM 387
    (2015) https://doi.org/10.1016/j.jmmm.2015.03.081

    Parameters
    ----------
    m : discretisedfield.Field
        Magnetisation field

    tensor : discretisedfield.field
        Demagnetisation tensor obatained with ``dft.demag_tensor``

    Returns
    -------
    discretisedfield.Field
        Demagnetisation field
    """
    warnings.warn(
        "This method is still experimental. Users are strongly encouraged to use oommfc"
        " for the calculation of the demag field.",
        stacklevel=2,
    )
    m_pad = m.pad(
        {d: (0, m.mesh.n[i] - 1) for d, i in zip(["x", "y", "z"], range(3))},
        mode="constant",
    )
    m_fft = m_pad.fftn()

    hx_fft = (
        tensor.ft_xx * m_fft.ft_x
        + tensor.ft_xy * m_fft.ft_y
        + tensor.ft_xz * m_fft.ft_z
    )
    hy_fft = (
        tensor.ft_xy * m_fft.ft_x
        + tensor.ft_yy * m_fft.ft_y
        + tensor.ft_yz * m_fft.ft_z
    )
    hz_fft = (
        tensor.ft_xz * m_fft.ft_x
        + tensor.ft_yz * m_fft.ft_y
        + tensor.ft_zz * m_fft.ft_z
    )

    H = hx_fft << hy_fft << hz_fft
    H.vdims = ["ft_x", "ft_y", "ft_z"]
    H = H.ifftn()
    return df.Field(
        m.mesh,
        nvdim=3,
        value=H.array[m.mesh.n[0] - 1 :, m.mesh.n[1] - 1 :, m.mesh.n[2] - 1 :, :],
    ).real


def _f(x, y, z):
    """Helper function to compute the demag tensor.

    This method implements function f from Albert et al. JMMM 387 (2015)
    https://doi.org/10.1016/j.jmmm.2015.03.081 which is required for the demag
    tensor.

    x, y, and z are mesh midpoints (either single points or numpy arrays).
    """
    x2 = x**2
    y2 = y**2
    z2 = z**2
    # the total fraction goes to zero when the denominator is zero
    return (
        abs(y)
        / 2
        * (z2 - x2)
        * np.arcsinh(
            np.divide(
                abs(y), np.sqrt(x2 + z2), out=np.zeros_like(x), where=(x2 + z2) != 0
            )
        )
        + abs(z)
        / 2
        * (y2 - x2)
        * np.arcsinh(
            np.divide(
                abs(z), np.sqrt(x2 + y2), out=np.zeros_like(x), where=(x2 + y2) != 0
            )
        )
        - abs(x * y * z)
        * np.arctan(
            np.divide(
                abs(y * z),
                abs(x) * np.sqrt(x2 + y2 + z2),
                out=np.zeros_like(x),
                where=x != 0,
            )
        )
        + 1 / 6 * (2 * x2 - y2 - z2) * np.sqrt(x2 + y2 + z2)
    )


def _g(x, y, z):
    """Helper function to compute the demag tensor.

    This method implements function g from Albert et al. JMMM 387 (2015)
    https://doi.org/10.1016/j.jmmm.2015.03.081 which is required for the demag
    tensor.

    x, y, and z are mesh midpoints (either single points or numpy arrays).
    """
    x2 = x**2
    y2 = y**2
    z2 = z**2
    # the total fraction goes to zero when the denominator is zero
    return (
        x
        * y
        * z
        * np.arcsinh(
            np.divide(z, np.sqrt(x2 + y2), out=np.zeros_like(x), where=(x2 + y2) != 0)
        )
        + y
        / 6
        * (3 * z2 - y2)
        * np.arcsinh(
            np.divide(x, np.sqrt(y2 + z2), out=np.zeros_like(x), where=(y2 + z2) != 0)
        )
        + x
        / 6
        * (3 * z2 - x2)
        * np.arcsinh(
            np.divide(y, np.sqrt(x2 + z2), out=np.zeros_like(x), where=(x2 + z2) != 0)
        )
        - z**3
        / 6
        * np.arctan(
            np.divide(
                x * y, z * np.sqrt(x2 + y2 + z2), out=np.zeros_like(x), where=z != 0
            )
        )
        - z
        * y**2
        / 2
        * np.arctan(
            np.divide(
                x * z, y * np.sqrt(x2 + y2 + z2), out=np.zeros_like(x), where=y != 0
            )
        )
        - z
        * x**2
        / 2
        * np.arctan(
            np.divide(
                y * z, x * np.sqrt(x2 + y2 + z2), out=np.zeros_like(x), where=x != 0
            )
        )
        - x * y * np.sqrt(x2 + y2 + z2) / 3
    )


def _N_element(x, y, z, cell, function):
    """Helper function to compute the demag tensor.

    ``cell`` holds the cell lengths belonging to the coordinates ``x``, ``y``, ``z``
    in that order.
    """
    dx, dy, dz = cell
    value = 0.0
    for i in itertools.product([0, 1], repeat=6):
        value += (-1) ** np.sum(i) * function(
            x + (i[0] - i[3]) * dx, y + (i[1] - i[4]) * dy, z + (i[2] - i[5]) * dz
        )
    return -value / (4 * np.pi * np.prod(cell))


def _N(mesh):
    """Helper function to compute the demag tensor."""

    dx, dy, dz = mesh.cell

    def _inner(p):
        x, y, z = p
        # permuted coordinates need the cell lengths permuted in the same way
        return (
            _N_element(x, y, z, (dx, dy, dz), _f),  # Nxx
            _N_element(y, z, x, (dy, dz, dx), _f),  # Nyy
            _N_element(z, x, y, (dz, dx, dy), _f),  # Nzz
            _N_element(x, y, z, (dx, dy, dz), _g),  # Nxy
            _N_element(x, z, y, (dx, dz, dy), _g),  # Nxz
            _N_element(y, z, x, (dy, dz, dx), _g),  # Nyz
        )

    return _inner
