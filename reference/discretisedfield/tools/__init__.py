"""Convenience tools"""

from .tools import count_bps as count_bps
from .tools import count_large_cell_angle_regions as count_large_cell_angle_regions
from .tools import demag_field as demag_field
from .tools import demag_tensor as demag_tensor
from .tools import emergent_magnetic_field as emergent_magnetic_field
from .tools import max_neighbouring_cell_angle as max_neighbouring_cell_angle
from .tools import neighbouring_cell_angle as neighbouring_cell_angle
from .tools import topological_charge as topological_charge
from .tools import topological_charge_density as topological_charge_density
