#!/venv/bin/python
"""tools/benign_demo.py [id ...]: re-confirm the behaviour-preserving refactorings of /verif/benign against the CURRENT HEAD of
/repo: in a scratch worktree the demo records its values on the clean tree (`demo.py --record`), the patch is applied and the
demo compares (`demo.py`).  Needed after a `fix:` commit changed behaviour that a demo had recorded.  Prints one line each."""
import os
import shutil
import subprocess
import sys

VERIF = os.path.dirname(os.path.dirname(os.path.abspath(__file__)))
WT = "/tmp/wt_benign_demo"
PY = "/venv/bin/python"


def sh(cmd, **kw):
    p = subprocess.run(cmd, capture_output=True, text=True, **kw)
    return p.returncode, p.stdout + p.stderr


def main():
    ids = sys.argv[1:] or sorted(d for d in os.listdir(os.path.join(VERIF, "benign")) if os.path.isdir(os.path.join(VERIF, "benign", d)))
    sh(["git", "-C", "/repo", "worktree", "remove", "--force", WT])
    rc, o = sh(["git", "-C", "/repo", "worktree", "add", "--detach", WT, "HEAD"])
    assert rc == 0, o
    bad = []
    try:
        for i in ids:
            d = os.path.join(VERIF, "benign", i)
            x = os.path.join(WT, "_ref1")
            shutil.rmtree(x, ignore_errors=True)
            os.makedirs(x)
            shutil.copy(os.path.join(d, "demo.py"), x)
            rc0, o0 = sh([PY, "_ref1/demo.py", "--record"], cwd=WT, timeout=1800)
            rc, o = sh(["git", "-C", WT, "apply", os.path.join(d, "patch.diff")])
            if rc != 0:
                print(f"{i}: patch does not apply")
                bad.append(i)
                continue
            try:
                rc1, o1 = sh([PY, "_ref1/demo.py"], cwd=WT, timeout=1800)
            finally:
                sh(["git", "-C", WT, "checkout", "--", "."])
            ok = rc1 == 0
            print(f"{i}: record exit={rc0} compare-with-change exit={rc1} {'ok' if ok else 'DIFFERS: ' + o1.strip().splitlines()[-1][:200] if o1.strip() else ''}")
            if not ok:
                bad.append(i)
    finally:
        sh(["git", "-C", "/repo", "worktree", "remove", "--force", WT])
    print("not confirmed:", bad)
    return 1 if bad else 0


if __name__ == "__main__":
    sys.exit(main())
