#!/venv/bin/python
"""tools/refactor_eval.py <worktree> <id-prefix> [--skip-tests]   e.g.  /tmp/rf_C03 C03

Evaluates the behaviour-preserving refactorings a sub-agent left in <worktree>/_ref<k>/ (patch.diff, demo.py, meta.json):
demo passes with the change, pinned test suite passes with the change, then every check (quick tier) on the worktree with the
change applied.  A refactoring must leave every check silent; a VIOLATION is a false alarm of the checker, an ANALYSIS-ERROR a
form it does not recognise.  Kept under /verif/benign/<id>/ with the verdicts (benign corpus, re-run by tools/benign_recheck.py)."""
import json
import os
import shutil
import subprocess
import sys
from concurrent.futures import ThreadPoolExecutor

HERE = os.path.dirname(os.path.abspath(__file__))
VERIF = os.path.dirname(HERE)
sys.path.insert(0, HERE)
PY = "/venv/bin/python"


def sh(cmd, **kw):
    p = subprocess.run(cmd, capture_output=True, text=True, **kw)
    return p.returncode, p.stdout + p.stderr


def checks_on(wt):
    env = dict(os.environ, VERIF_NO_EVIDENCE="1")

    def one(c):
        rc, o = sh([os.path.join(VERIF, "check"), c, "--tier", "quick", "--repo", wt], cwd=VERIF, env=env)
        keys = [l.split(" instance ")[1].split(": ")[0] for l in o.splitlines() if " instance " in l and l.startswith("  ")]
        errs = [l[:300] for l in o.splitlines() if l.startswith("ANALYSIS-ERROR")]
        return c, rc, keys, errs
    with ThreadPoolExecutor(8) as ex:
        return list(ex.map(one, [f"C{i:02d}" for i in range(1, 21)]))


def main():
    wt, prefix = sys.argv[1], sys.argv[2]
    skip = "--skip-tests" in sys.argv
    offset = 0
    for a in sys.argv:
        if a.startswith("--offset="):
            offset = int(a.split("=")[1])
    from seed_eval import run_suite
    k = 0
    while True:
        k += 1
        d = os.path.join(wt, f"_ref{k}")
        if not os.path.isfile(os.path.join(d, "patch.diff")):
            break
        rid = f"{prefix}-r{k + offset}"
        meta = json.load(open(os.path.join(d, "meta.json")))
        sh(["git", "-C", wt, "checkout", "--", "discretisedfield"])
        if "--rerecord" in sys.argv:
            # the worktree was moved to a later commit (a `fix:` landed while the sub-agent worked): the demo records its
            # reference values again on the clean tree before the change is applied
            sh([PY, f"_ref{k}/demo.py", "--record"], cwd=wt)
        rc, o = sh(["git", "-C", wt, "apply", os.path.join(d, "patch.diff")])
        if rc != 0:
            rc, o = sh(["git", "-C", wt, "apply", "--3way", os.path.join(d, "patch.diff")])
            if rc != 0 or b"<<<<<<<" in open(os.path.join(wt, meta.get("files", ["discretisedfield/field.py"])[0]), "rb").read():
                sh(["git", "-C", wt, "reset", "--hard", "-q"])
                print(f"{rid}: patch does not apply: {o[:200]}")
                continue
            sh(["git", "-C", wt, "reset", "-q"])
            open(os.path.join(d, "patch.diff"), "w").write(sh(["git", "-C", wt, "diff", "--", "discretisedfield"])[1])
        try:
            rc_demo, o_demo = sh([PY, f"_ref{k}/demo.py"], cwd=wt)
            tests_ok = None
            rec = None
            if not skip:
                tests_ok, rec = run_suite(wt, rid)
            res = checks_on(wt)
        finally:
            sh(["git", "-C", wt, "checkout", "--", "discretisedfield"])
        viol = {c: ks[:6] for c, rc_, ks, es in res if rc_ == 1}
        errs = {c: es[:2] for c, rc_, ks, es in res if rc_ == 2}
        out = {"property": meta.get("property"), "summary": meta.get("summary"), "files": meta.get("files"),
               "why_equivalent": meta.get("why_equivalent"),
               "author": "independent sub-agent (saw the property text and a scratch worktree; asked for behaviour-preserving refactorings)",
               "confirmed": {"demo_passes_with_change": rc_demo == 0, "test_suite_passes_with_change": tests_ok},
               "ran": {"demo_tail": o_demo.strip().splitlines()[-2:], "test_suite_with_change": rec},
               "checks_first": {"violations": viol, "analysis_errors": errs}}
        dst = os.path.join(VERIF, "benign", rid)
        os.makedirs(dst, exist_ok=True)
        if skip and os.path.isfile(os.path.join(dst, "meta.json")):
            # re-evaluation of the checks only (worktree moved to a later commit): the suite result of the first run stands
            prev = json.load(open(os.path.join(dst, "meta.json")))
            out["confirmed"]["test_suite_passes_with_change"] = prev.get("confirmed", {}).get("test_suite_passes_with_change")
            out["ran"]["test_suite_with_change"] = prev.get("ran", {}).get("test_suite_with_change")
            out["note"] = "checks re-evaluated after the worktree was moved onto a later `fix:` commit; the suite ran on the earlier commit"
        shutil.copy(os.path.join(d, "patch.diff"), os.path.join(dst, "patch.diff"))
        shutil.copy(os.path.join(d, "demo.py"), os.path.join(dst, "demo.py"))
        for extra in sorted(os.listdir(d)):        # the values the demo recorded on the clean tree (expected.json, reference.json, expected.pkl ...)
            pth = os.path.join(d, extra)
            if extra not in ("patch.diff", "demo.py", "meta.json") and not extra.endswith(".log") and os.path.isfile(pth) \
                    and os.path.getsize(pth) < 400000:
                shutil.copy(pth, os.path.join(dst, extra))
        json.dump(out, open(os.path.join(dst, "meta.json"), "w"), indent=1)
        print(f"{rid}: demo_ok={rc_demo == 0} tests_ok={tests_ok} VIOLATIONS={sorted(viol)} errors={sorted(errs)}")
        for c, ks in viol.items():
            print("    V", c, ks[:4])
        for c, es in errs.items():
            print("    E", c, es[:1])
    return 0


if __name__ == "__main__":
    sys.exit(main())
