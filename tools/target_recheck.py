#!/venv/bin/python
"""tools/target_recheck.py [seeded|benign]: fast regression figure without worktrees - every corpus patch is applied in memory
(sa/selftest/patchapply) and judged by the check of the property it was written against (seeded: must be reported; benign: must
be silent).  The 20-check figure (`checks_now`) comes from tools/seed_recheck.py."""
import os
import sys
from concurrent.futures import ProcessPoolExecutor

sys.path.insert(0, os.path.dirname(os.path.dirname(os.path.abspath(__file__))))
from sa.selftest.corpus import _independent        # noqa: E402


def main():
    corpus = sys.argv[1] if len(sys.argv) > 1 else "seeded"
    root = os.path.dirname(os.path.dirname(os.path.abspath(__file__)))
    ids = sorted(d for d in os.listdir(os.path.join(root, corpus)) if os.path.isfile(os.path.join(root, corpus, d, "patch.diff")))
    tasks = [(corpus, i, i.split("-")[0], os.environ.get("VERIF_REPO", "/repo")) for i in ids]
    with ProcessPoolExecutor(max_workers=min(16, os.cpu_count() or 4)) as ex:
        res = list(ex.map(_independent, tasks, chunksize=2))
    want = "violation" if corpus == "seeded" else "ok"
    bad = [(cid, v, det) for _, cid, v, det in res if v != want]
    for cid, v, det in bad:
        print(f"{cid}: {v} {str(det)[:160]}")
    print(f"{len(res)} patches of {corpus}/, {len(res) - len(bad)} as wanted ({want}), {len(bad)} not")
    import json
    import subprocess
    head = subprocess.run(["git", "-C", os.environ.get("VERIF_REPO", "/repo"), "rev-parse", "--short=8", "HEAD"],
                          capture_output=True, text=True).stdout.strip()
    json.dump({"repo_head": head, "verdict_of_the_target_check": {cid: (v if v in ("ok", "violation") else f"{v}: {str(det)[:120]}")
                                                                   for _, cid, v, det in res}},
              open(os.path.join(root, corpus, "target_now.json"), "w"), indent=1, sort_keys=True)
    return 0


if __name__ == "__main__":
    sys.exit(main())
