#!/venv/bin/python
"""tools/probe_all.py [module-prefix ...]: single-edit mutants of EVERY function of the package (not only the anchored ones),
each given to all twenty checks in memory; prints the edits that no check reports, grouped by function.  A measurement for
finding unguarded code (survivors are triaged by reading: many are behaviour-preserving or outside every property)."""
import os
import sys
from collections import defaultdict
from concurrent.futures import ProcessPoolExecutor

sys.path.insert(0, os.path.dirname(os.path.dirname(os.path.abspath(__file__))))
SKIP = ("plotting.hv", "plotting.k3d", "plotting.pyvista", "html.", "interact.", "__init__.", "io.ovf2vtk", "plotting.mpl_mesh",
        "plotting.mpl_region", "plotting.mpl.add_colorwheel")


def job(args):
    q, d, rel, new = args
    from sa.selftest.corpus import verdict
    hits = []
    for i in range(1, 21):
        pid = f"C{i:02d}"
        v, _ = verdict(pid, "/repo", {rel: new})
        if v != "ok":
            hits.append(pid + ("!" if v == "error" else ""))
            if os.environ.get("PROBE_FIRST_HIT"):
                break               # one reporting check is enough to know the edit does not survive
    return q, d, hits


def main():
    from sa.model import Repo
    from sa.selftest import automut
    repo = Repo("/repo")
    pref = sys.argv[1:]
    quals = sorted(q for q, f in repo.funcs.items() if f.parent is None and not q.startswith(SKIP)
                   and not any(x in q for x in ("__repr__", "_repr_html_", "__dir__", ".hv", ".k3d", ".pyvista", "_hv_"))
                   and (not pref or q.startswith(tuple(pref))))
    tasks = list(automut.generate("/repo", quals, repo=repo))
    print(f"{len(tasks)} single-edit mutants of {len(quals)} functions", flush=True)
    surv = defaultdict(list)
    n_rep = 0
    with ProcessPoolExecutor(16) as ex:
        for q, d, hits in ex.map(job, tasks, chunksize=4):
            if hits:
                n_rep += 1
            else:
                surv[q].append(d)
    print(f"reported by at least one check: {n_rep} / {len(tasks)}")
    for q in sorted(surv, key=lambda k: -len(surv[k])):
        print(f"== {q}: {len(surv[q])} unreported")
        for d in surv[q]:
            print("     ", d[:150])
    return 0


if __name__ == "__main__":
    sys.exit(main())
