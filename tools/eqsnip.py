#!/venv/bin/python
"""tools/eqsnip.py <file>: decide equivalence of pairs of function snippets with the engine of sa/equiv.py (for developing it).

The file holds blocks separated by lines starting with `#==`; each block is `<expect: EQ|NE> [class]` on the separator line
followed by two definitions of one function named f, separated by a line `#--`.  With `Field` / `Mesh` / `Region` after the
expectation the functions are put into that class as methods (so that `self` has the type), else into util/util.py."""
import os
import re
import sys

sys.path.insert(0, os.path.dirname(os.path.dirname(os.path.abspath(__file__))))
os.environ["VERIF_NO_REFERENCE"] = "1"
from sa.model import Repo          # noqa: E402
from sa import equiv               # noqa: E402

WHERE = {"Field": ("discretisedfield/field.py", "class Field(_FieldIO):", "field.Field."),
         "Mesh": ("discretisedfield/mesh.py", "class Mesh(_MeshIO):", "mesh.Mesh."),
         "Region": ("discretisedfield/region.py", "class Region(_RegionIO):", "region.Region."),
         "": ("discretisedfield/util/util.py", None, "util.util.")}


def place(root, cls, src):
    rel, anchor, prefix = WHERE[cls]
    text = open(os.path.join(root, rel)).read()
    if anchor is None:
        return {rel: text + "\n\n" + src + "\n"}, prefix + "f"
    ind = "\n".join(("    " + l if l.strip() else l) for l in src.splitlines())
    assert anchor in text, anchor
    # append the method at the end of the class: the classes are the last top-level definition but for module-level registers
    m = re.search(r"^" + re.escape(anchor) + r".*?(?=^\S)", text, re.S | re.M)
    end = m.end() if m else len(text)
    return {rel: text[:end] + "\n" + ind + "\n\n" + text[end:]}, prefix + "f"


def main():
    blocks = re.split(r"^#==", open(sys.argv[1]).read(), flags=re.M)[1:]
    refroot = os.path.join(os.path.dirname(os.path.dirname(os.path.abspath(__file__))), "reference")
    bad = 0
    only = sys.argv[2:]
    for k, b in enumerate(blocks):
        head, _, body = b.partition("\n")
        parts = head.split()
        expect = parts[0]
        cls = parts[1] if len(parts) > 1 and parts[1] in WHERE else ""
        label = " ".join(parts[2 if cls else 1:])
        if only and not any(o in label or o == str(k) for o in only):
            continue
        a, _, c = body.partition("\n#--\n")
        ova, q = place(refroot, cls, a.strip("\n"))
        ovb, _ = place(refroot, cls, c.strip("\n"))
        ra = Repo(refroot, overrides=ova, is_reference=True)
        rb = Repo(refroot, overrides=ovb, is_reference=True)
        ok, note = equiv.equivalent(ra, rb, q)
        good = ok == (expect == "EQ")
        bad += not good
        print(f"{'ok  ' if good else 'FAIL'} #{k} {label}: expected {expect}, got {'EQ' if ok else 'NE'} ({note[:160]})")
    print(f"{bad} problems")
    return 1 if bad else 0


if __name__ == "__main__":
    sys.exit(main())
