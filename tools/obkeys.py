#!/venv/bin/python
"""tools/obkeys.py [--repo DIR] [pids...] -> one line per rule instance: <pid> <key> <ok>   (to diff two versions of the checker)"""
import importlib
import os
import sys
sys.path.insert(0, os.path.dirname(os.path.dirname(os.path.abspath(__file__))))
from sa.model import Repo, AnalysisError  # noqa: E402
from sa.report import Check  # noqa: E402

args = sys.argv[1:]
root = "/repo"
if args and args[0] == "--repo":
    root = args[1]
    args = args[2:]
for pid in args or [f"C{i:02d}" for i in range(1, 21)]:
    mod = importlib.import_module(f"sa.rules.{pid.lower()}")
    chk = Check(pid, Repo(root), "quick")
    try:
        mod.run(chk)
    except AnalysisError as e:
        print(pid, "ANALYSIS-ERROR", str(e)[:200])
    except Exception as e:  # noqa: BLE001
        print(pid, "CRASH", repr(e)[:200])
    seen = {}
    for o in chk.obligations:
        seen.setdefault(o["key"], []).append(o["ok"])
    for k in sorted(seen):
        print(pid, k, len(seen[k]), all(seen[k]))
