#!/venv/bin/python
"""tools/seed_eval.py <worktree> <seed-id> [--skip-tests] [--seed-dir=_seed1 --apply-patch]

Confirms an independently produced regression and records what the checks say about it:
  1. demo fails with the change, passes without it (in the scratch worktree);
  2. the pinned test suite still passes with the change (junit compared with BASELINE.json stable_pass);
  3. the patch is applied to /repo, every check is run (quick tier), the patch is undone straight afterwards;
  4. /verif/seeded/<seed-id>/ gets patch.diff, demo.py and meta.json (property, needs, what was run, which checks report it).
"""
import ast
import json
import os
import shutil
import subprocess
import sys
import xml.etree.ElementTree as ET

VERIF = os.path.dirname(os.path.dirname(os.path.abspath(__file__)))
PY = "/venv/bin/python"


def run(cmd, cwd=None, timeout=3600):
    p = subprocess.run(cmd, cwd=cwd, shell=isinstance(cmd, str), capture_output=True, text=True, timeout=timeout)
    return p.returncode, p.stdout + p.stderr


def run_suite(wt, sid):
    junit = f"/tmp/seed_{sid}.junit.xml"
    cmd = (f"cd {wt} && {PY} -m pytest -q -p no:cacheprovider --timeout=900 --continue-on-collection-errors "
           f"--junitxml={junit} discretisedfield")
    rc, o = run(cmd, timeout=3600)
    b = json.load(open("/root/.vp/BASELINE.json"))
    stable = b["stable_pass"]
    if isinstance(stable, str):
        stable = ast.literal_eval(stable)
    passed = set()
    for tc in ET.parse(junit).getroot().iter("testcase"):
        if not [c for c in tc if c.tag in ("failure", "error", "skipped")]:
            passed.add(f"{tc.get('classname')}::{tc.get('name')}")
    missing = sorted(set(stable) - passed)
    os.remove(junit)
    return not missing, {"cmd": cmd, "summary": o.strip().splitlines()[-1], "stable_pass_missing": missing[:5]}


def tests_only(wt, sid):
    """second phase: the pinned suite with the change applied in the scratch worktree (does not touch /repo)"""
    dst = os.path.join(VERIF, "seeded", sid, "meta.json")
    meta = json.load(open(dst))
    ok, rec = run_suite(wt, sid)
    meta["ran"]["test_suite_with_change"] = rec
    meta["confirmed"]["test_suite_passes_with_change"] = ok
    json.dump(meta, open(dst, "w"), indent=1)
    print(f"{sid}: test suite with change: {'passes' if ok else 'FAILS'} ({rec['summary']})")
    return 0 if ok else 1


def main():
    wt, sid = sys.argv[1], sys.argv[2]
    skip_tests = "--skip-tests" in sys.argv
    if "--tests-only" in sys.argv:
        return tests_only(wt, sid)
    seed_name = "_seed"
    for a in sys.argv:
        if a.startswith("--seed-dir="):
            seed_name = a.split("=", 1)[1]
    seed = os.path.join(wt, seed_name)
    meta = json.load(open(os.path.join(seed, "meta.json")))
    if "--apply-patch" in sys.argv:
        # the worktree is clean; the change is the seed directory's patch.diff
        run(["git", "-C", wt, "checkout", "--", "discretisedfield"])
        rc, o = run(["git", "-C", wt, "apply", os.path.join(seed, "patch.diff")])
        if rc != 0:
            print("patch does not apply in worktree: " + o[:300])
            return 2
    pid = meta["property"]
    out = {"property": pid, "summary": meta.get("summary"), "needs": meta.get("needs"), "files": meta.get("files"),
           "author": "independent sub-agent (saw only the property text and a scratch worktree)", "ran": {}}
    # 0. the patch is what is applied in the worktree
    rc, diff = run(["git", "-C", wt, "diff", "--", "discretisedfield"])
    open(os.path.join(seed, "patch.diff"), "w").write(diff)
    if not diff.strip():
        print("no change in worktree")
        return 2
    # 1. demo both ways
    rc_with, o_with = run([PY, f"{seed_name}/demo.py"], cwd=wt)
    # NB: never `git stash` here - the stash is shared by all worktrees of a repository
    run(["git", "-C", wt, "apply", "-R", os.path.join(seed, "patch.diff")])
    try:
        rc_without, o_without = run([PY, f"{seed_name}/demo.py"], cwd=wt)
    finally:
        run(["git", "-C", wt, "apply", os.path.join(seed, "patch.diff")])
    out["ran"]["demo_with_change"] = {"exit": rc_with, "tail": o_with.strip().splitlines()[-3:]}
    out["ran"]["demo_without_change"] = {"exit": rc_without, "tail": o_without.strip().splitlines()[-2:]}
    demo_ok = rc_with == 1 and rc_without == 0
    # 2. test suite with the change
    tests_ok = None
    if not skip_tests:
        junit = f"/tmp/seed_{sid}.junit.xml"
        cmd = (f"cd {wt} && {PY} -m pytest -q -p no:cacheprovider --timeout=900 --continue-on-collection-errors "
               f"--junitxml={junit} discretisedfield")
        rc, o = run(cmd, timeout=3600)
        b = json.load(open("/root/.vp/BASELINE.json"))
        stable = b["stable_pass"]
        if isinstance(stable, str):
            stable = ast.literal_eval(stable)
        passed = set()
        for tc in ET.parse(junit).getroot().iter("testcase"):
            if not [c for c in tc if c.tag in ("failure", "error", "skipped")]:
                passed.add(f"{tc.get('classname')}::{tc.get('name')}")
        missing = sorted(set(stable) - passed)
        tests_ok = not missing
        out["ran"]["test_suite_with_change"] = {"cmd": cmd, "summary": o.strip().splitlines()[-1], "stable_pass_missing": missing[:5]}
        os.remove(junit)
    # 3. all checks (quick tier) on the scratch worktree, where the change is applied; /repo itself and the committed
    #    evidence are not touched (same code path as the registered commands, with --repo and VERIF_NO_EVIDENCE=1)
    patch = os.path.join(seed, "patch.diff")
    verdicts = {}
    from concurrent.futures import ThreadPoolExecutor
    env = dict(os.environ, VERIF_NO_EVIDENCE="1")

    def one(c):
        p_ = subprocess.run([os.path.join(VERIF, "check"), c, "--tier", "quick", "--repo", wt], cwd=VERIF, env=env,
                            capture_output=True, text=True)
        o2 = p_.stdout + p_.stderr
        keys = [l.split(" instance ")[1].split(": ")[0] for l in o2.splitlines() if " instance " in l and l.startswith("  ")]
        errs = [l for l in o2.splitlines() if l.startswith("ANALYSIS-ERROR")]
        return c, {"exit": p_.returncode, "instances": keys[:6], "errors": errs[:2]}
    with ThreadPoolExecutor(8) as ex:
        verdicts = dict(ex.map(one, [f"C{i:02d}" for i in range(1, 21)]))
    caught = sorted(c for c, v in verdicts.items() if v["exit"] == 1)
    errors = sorted(c for c, v in verdicts.items() if v["exit"] == 2)
    out["checks"] = {"reporting_violation": caught, "analysis_error": errors,
                     "target_property_reports": pid in caught,
                     "instances": {c: verdicts[c]["instances"] for c in caught},
                     "errors": {c: verdicts[c]["errors"] for c in errors}}
    out["confirmed"] = {"demo_fails_with_and_passes_without": demo_ok, "test_suite_passes_with_change": tests_ok}
    # 4. keep
    dst = os.path.join(VERIF, "seeded", sid)
    os.makedirs(dst, exist_ok=True)
    shutil.copy(patch, os.path.join(dst, "patch.diff"))
    shutil.copy(os.path.join(seed, "demo.py"), os.path.join(dst, "demo.py"))
    json.dump(out, open(os.path.join(dst, "meta.json"), "w"), indent=1)
    # restore evidence of the clean tree
    print(f"{sid}: property {pid} demo_ok={demo_ok} tests_ok={tests_ok} caught_by={caught} errors={errors}")
    for c in caught:
        print("   ", c, verdicts[c]["instances"][:3])
    return 0


if __name__ == "__main__":
    sys.exit(main())
