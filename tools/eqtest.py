#!/venv/bin/python
"""tools/eqtest.py <transform> [pids...] : run checks on a whole-repo equivalent variant and print what changed"""
import sys, os, importlib
sys.path.insert(0, os.path.dirname(os.path.dirname(os.path.abspath(__file__))))
from sa.model import Repo, AnalysisError
from sa.report import Check, load_known
from sa.selftest import transforms

name = sys.argv[1]
pids = sys.argv[2:] or [f"C{i:02d}" for i in range(1, 21)]
ov = {**transforms.WHOLE_REPO, **transforms.EXTRA}[name]("/repo")
bad = 0
for pid in pids:
    mod = importlib.import_module(f"sa.rules.{pid.lower()}")
    repo = Repo("/repo", overrides=ov, use_reference=False)
    chk = Check(pid, repo)
    err = None
    try:
        mod.run(chk)
        from sa import shared
        shared.run_shared(pid, chk, repo, mod)
    except AnalysisError as e:
        err = str(e)
    known = load_known(pid)
    fails = [o for o in chk.obligations if not o["ok"] and o["key"] not in known]
    if err or fails:
        bad += 1
        print(f"== {pid}: {'ERROR ' + err if err else ''}")
        for o in fails:
            print(f"   {o['key']}: {o['detail'][:300]}")
print(f"{bad} properties changed verdict under {name}")
sys.exit(1 if bad else 0)
