#!/venv/bin/python
"""tools/seed_recheck.py [--benign] [-v] [id ...]   (default: all of /verif/seeded, or of /verif/benign with --benign)

Re-runs every check (quick tier) on a scratch worktree of /repo with each kept seed applied, and records the verdicts
in the seed's meta.json under "checks_now" (the verdicts of the first evaluation stay under "checks").  /repo itself and
the committed evidence are not touched (./check --repo <worktree>, VERIF_NO_EVIDENCE=1)."""
import json
import os
import subprocess
import sys
from concurrent.futures import ThreadPoolExecutor

VERIF = os.path.dirname(os.path.dirname(os.path.abspath(__file__)))
WT = "/tmp/wt_seed_recheck" + ("_b" if "--benign" in sys.argv else "")


def sh(cmd, **kw):
    p = subprocess.run(cmd, capture_output=True, text=True, **kw)
    return p.returncode, p.stdout + p.stderr


def one_check(c):
    env = dict(os.environ, VERIF_NO_EVIDENCE="1")
    rc, o = sh([os.path.join(VERIF, "check"), c, "--tier", "quick", "--repo", WT], cwd=VERIF, env=env)
    keys = [l.split(" instance ")[1].split(": ")[0] for l in o.splitlines() if " instance " in l and l.startswith("  ")]
    err = [l for l in o.splitlines() if l.startswith("ANALYSIS-ERROR")]
    return c, rc, keys, err


def main():
    corpus = "seeded"
    args = sys.argv[1:]
    if args and args[0] == "--benign":
        corpus = "benign"
        args = args[1:]
    verbose = "-v" in args
    args = [a for a in args if a != "-v"]
    ids = args or sorted(d for d in os.listdir(os.path.join(VERIF, corpus)) if os.path.isdir(os.path.join(VERIF, corpus, d)))
    sh(["git", "-C", "/repo", "worktree", "remove", "--force", WT])
    rc, o = sh(["git", "-C", "/repo", "worktree", "add", "--detach", WT, "HEAD"])
    assert rc == 0, o
    allc = [f"C{i:02d}" for i in range(1, 21)]
    missed = []
    try:
        for sid in ids:
            d = os.path.join(VERIF, corpus, sid)
            meta = json.load(open(os.path.join(d, "meta.json")))
            rc, o = sh(["git", "-C", WT, "apply", os.path.join(d, "patch.diff")])
            if rc != 0:
                print(f"{sid}: patch does not apply: {o[:200]}")
                continue
            try:
                with ThreadPoolExecutor(16) as ex:
                    res = list(ex.map(one_check, allc))
            finally:
                sh(["git", "-C", WT, "checkout", "--", "."])
            caught = sorted(c for c, rc, k, e in res if rc == 1)
            errors = sorted(c for c, rc, k, e in res if rc == 2)
            meta["checks_now"] = {"reporting_violation": caught, "analysis_error": errors,
                                  "target_property_reports": meta["property"] in caught,
                                  "instances": {c: k[:6] for c, rc, k, e in res if rc == 1},
                                  "errors": {c: e[:2] for c, rc, k, e in res if rc == 2}}
            json.dump(meta, open(os.path.join(d, "meta.json"), "w"), indent=1)
            if corpus == "benign":
                flag = "" if not caught and not errors else "   <-- FALSE ALARM" if caught else "   <-- unrecognised form"
                print(f"{sid}: violations={caught} errors={errors}{flag}")
                if verbose:
                    for c, rc, k, e in res:
                        if rc:
                            print("     ", c, (k or e)[:5])
                if caught or errors:
                    missed.append(sid)
                continue
            flag = "" if meta["property"] in caught else "   <-- target property silent"
            print(f"{sid}: caught_by={caught} errors={errors}{flag}")
            if meta["property"] not in caught:
                missed.append(sid)
    finally:
        sh(["git", "-C", "/repo", "worktree", "remove", "--force", WT])
    print("not silent:" if corpus == "benign" else "target property silent:", missed)
    return 0


if __name__ == "__main__":
    sys.exit(main())
