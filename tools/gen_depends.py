#!/venv/bin/python
"""tools/gen_depends.py: (re)build sa/depends.json - for every property P, the other properties Q that have rule instances on
functions P's anchored functions reach (name-based closure, sa/shared.py), with those functions.  Run on the clean tree after
rules or anchors change; the file is committed (the run-time closure only ever narrows it)."""
import importlib
import json
import os
import sys

sys.path.insert(0, os.path.dirname(os.path.dirname(os.path.abspath(__file__))))
os.environ["VERIF_NO_SHARED"] = "1"
from sa.model import Repo                     # noqa: E402
from sa.report import Check                   # noqa: E402
from sa import shared                         # noqa: E402

ALL = [f"C{i:02d}" for i in range(1, 21)]
# properties whose rule sets span the whole package (C13: every transformation, every slot): a source only for the functions
# P itself is anchored in (purity of its methods, ownership of the slots they store), not for the helpers P reaches
ANCHORS_ONLY = {"C13"}


def main():
    repo = Repo("/repo")
    mods = {p: importlib.import_module(f"sa.rules.{p.lower()}") for p in ALL}
    obs = {}
    for p in ALL:
        chk = Check(p, repo, "quick")
        mods[p].run(chk)
        obs[p] = [o for o in chk.obligations if o["function"] and not o["key"].startswith("schema::")]
    out = {}
    for p in ALL:
        anchors = list(getattr(mods[p], "ANCHORS", [])) + list(getattr(mods[p], "CLOSURE_ROOTS", []))
        reach = shared.closure(repo, anchors)
        own_keys = {o["key"] for o in obs[p]}
        dep = {}
        for q in ALL:
            if q == p:
                continue
            scope = set(anchors) if q in ANCHORS_ONLY else reach
            funcs = sorted({o["function"] for o in obs[q] if o["function"] in scope and o["key"] not in own_keys})
            if funcs:
                dep[q] = funcs
        out[p] = dep
        print(p, {q: len(f) for q, f in dep.items()})
    json.dump(out, open(os.path.join(os.path.dirname(os.path.dirname(os.path.abspath(__file__))), "sa", "depends.json"), "w"),
              indent=1, sort_keys=True)


if __name__ == "__main__":
    main()
