#!/venv/bin/python
"""tools/realrun.py <transform> ...: the twenty checks on a whole-repository rewrite as a user would run them (reference forms
ON: a function that is proven equivalent to its reference form is analysed in that form).  tools/eqtest.py is the stricter
measurement (reference forms off) that the thorough tier gates."""
import os
import sys
from concurrent.futures import ProcessPoolExecutor

sys.path.insert(0, os.path.dirname(os.path.dirname(os.path.abspath(__file__))))
from sa.selftest import transforms                 # noqa: E402
from sa.selftest.corpus import verdict              # noqa: E402

ALL = {**transforms.WHOLE_REPO, **transforms.EXTRA}


def job(args):
    name, pid = args
    return name, pid, verdict(pid, "/repo", ALL[name]("/repo"))


def main():
    names = sys.argv[1:] or sorted(ALL)
    tasks = [(n, f"C{i:02d}") for n in names for i in range(1, 21)]
    bad = {}
    with ProcessPoolExecutor(16) as ex:
        for name, pid, (v, det) in ex.map(job, tasks, chunksize=2):
            if v != "ok":
                bad.setdefault(name, []).append(f"{pid}: {v} {str(det)[:120]}")
    for n in names:
        print(f"{n}: {'all twenty checks silent' if n not in bad else str(len(bad[n])) + ' checks changed verdict'}")
        for line in bad.get(n, [])[:6]:
            print("    ", line)
    return 1 if bad else 0


if __name__ == "__main__":
    sys.exit(main())
