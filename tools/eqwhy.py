#!/venv/bin/python
"""tools/eqwhy.py [--benign|--seeded] <id>...: which functions of a corpus patch differ from the reference form and whether each is
proven equivalent (with the reason when not)"""
import sys, os
sys.path.insert(0, os.path.dirname(os.path.dirname(os.path.abspath(__file__))))
from sa.model import Repo
from sa.selftest.patchapply import apply_patch

corpus = "benign"
ids = []
for a in sys.argv[1:]:
    if a.startswith("--"):
        corpus = a[2:]
    else:
        ids.append(a)
root = os.path.dirname(os.path.dirname(os.path.abspath(__file__)))
for i in ids:
    ov = apply_patch("/repo", open(os.path.join(root, corpus, i, "patch.diff")).read())
    repo = Repo("/repo", overrides=ov)
    print(f"== {i}")
    for q, note in repo.substituted.items():
        print(f"   EQUIVALENT   {q}: {note[:100]}")
    for q, note in repo.restructured.items():
        print(f"   NOT PROVEN   {q}: {note[:300]}")
