#!/bin/bash
# Runs the repository's pinned test suite (guard OFF) and compares with /root/.vp/BASELINE.json stable_pass.
out=${1:-/tmp/baseline.junit.xml}
cd /repo && /venv/bin/python -m pytest -ra -q -p no:cacheprovider --timeout=900 --continue-on-collection-errors --junitxml=$out > /tmp/baseline.log 2>&1
/venv/bin/python - "$out" <<'PY'
import json,sys,ast
import xml.etree.ElementTree as ET
b=json.load(open('/root/.vp/BASELINE.json'))
stable=b['stable_pass']
if isinstance(stable,str): stable=ast.literal_eval(stable)
stable=set(stable)
passed=set()
for tc in ET.parse(sys.argv[1]).getroot().iter('testcase'):
    bad=[c.tag for c in tc if c.tag in('failure','error','skipped')]
    if not bad: passed.add(f"{tc.get('classname')}::{tc.get('name')}")
missing=sorted(stable-passed)
print(f"stable_pass={len(stable)} passed_now={len(passed)} missing_from_stable={len(missing)}")
for m in missing[:40]: print("  MISSING",m)
sys.exit(1 if missing else 0)
PY
