#!/bin/bash
# tools/seed_batch.sh <worktree> <Cxx> <suffix for _seed1> [<suffix for _seed2> ...]: confirm and evaluate the seeds a sub-agent left in <worktree>/_seed<k>
wt=$1; pid=$2; shift 2
k=1
for suf in "$@"; do
  if [ -f $wt/_seed$k/patch.diff ]; then
    /venv/bin/python $(dirname $(readlink -f $0))/seed_eval.py $wt $pid-$suf --seed-dir=_seed$k --apply-patch
  else
    echo "$pid-$suf: no _seed$k/patch.diff in $wt"
  fi
  k=$((k+1))
done
git -C $wt checkout -- . 2>/dev/null
