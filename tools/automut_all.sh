#!/bin/bash
# tools/automut_all.sh [out-dir]  - single-edit mutation analysis of the checker for every property (anchored functions only)
out=${1:-/tmp/automut}
mkdir -p "$out"
cd "$(dirname "$0")/.."
for p in $(seq -w 1 20); do
  /venv/bin/python -m sa.selftest.automut C$p > "$out/C$p.txt" 2>&1
  echo "C$p $(tail -1 "$out/C$p.txt")"
done
