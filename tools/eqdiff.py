#!/venv/bin/python
"""tools/eqdiff.py <corpus> <id> <qual>: exits and effects of the patched and the reference form of one function, side by side,
with the first differing sub-terms"""
import sys, os
sys.path.insert(0, os.path.dirname(os.path.dirname(os.path.abspath(__file__))))
os.environ["VERIF_NO_REFERENCE"] = "1"
from sa.model import Repo
from sa.lib import FV
from sa.terms import Ctx
from sa import equiv
from sa.selftest.patchapply import apply_patch
corpus, sid, qual = sys.argv[1:4]
root = os.path.dirname(os.path.dirname(os.path.abspath(__file__)))
ov = apply_patch("/repo", open(os.path.join(root, corpus, sid, "patch.diff")).read())
cur = Repo("/repo", overrides=ov)
ref = Repo(os.path.join(root, "reference"), is_reference=True)
ctx = Ctx()
va = FV(cur, qual, ctx=ctx)
vb = FV(ref, qual, ctx=ctx)
for v in (va, vb):
    v.ev.exact = True
    v.ev.alias_mode = True
(xa, ea), (xb, eb) = equiv._name_carried(ctx, *equiv.summary(va), 'A'), equiv._name_carried(ctx, *equiv.summary(vb), 'A')


def diff(a, b, path="", depth=0):
    if ctx.eq(a, b):
        return
    ia, ib = a.single_atom(), b.single_atom()
    if ia is not None and ib is not None:
        (ha, aa), (hb, ab) = ctx.atoms[ia], ctx.atoms[ib]
        if ha == hb and len(aa) == len(ab):
            for k, (x, y) in enumerate(zip(aa, ab)):
                diff(x, y, path + f"/{ha[0]}:{ha[1] if len(ha) > 1 else ''}[{k}]", depth + 1)
            return
    print("   DIFF at", path)
    print("      CUR:", va.show(a)[:500])
    print("      REF:", va.show(b)[:500])


def items(x, e):
    return [("exit",) + tuple(i) for i in x] + [("eff",) + tuple(i) for i in e]


for label, A, B in (("exit", xa, xb), ("effect", ea, eb)):
    print(f"--- {len(A)} {label}s in the current form, {len(B)} in the reference form")
    for k in range(max(len(A), len(B))):
        i = A[k] if k < len(A) else None
        j = B[k] if k < len(B) else None
        print(f"#{k} CUR {i[:2] if i else None} | REF {j[:2] if j else None}")
        if i and j and i[0] == j[0]:
            diff(i[2], j[2], "cond")
            for n, (x, y) in enumerate(zip(i[3], j[3])):
                diff(x, y, f"term{n}")
        elif "-v" in sys.argv:
            if i:
                print("      CUR cond", va.show(i[2])[:300], [va.show(t)[:200] for t in i[3]])
            if j:
                print("      REF cond", va.show(j[2])[:300], [va.show(t)[:200] for t in j[3]])
