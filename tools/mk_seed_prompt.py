#!/venv/bin/python
"""tools/mk_seed_prompt.py <Cxx> <worktree> [n] -> prompt text for an independent seeding sub-agent (property text + worktree only)"""
import json
import os
import sys

here = os.path.dirname(os.path.abspath(__file__))
pid, wt = sys.argv[1], sys.argv[2]
n = sys.argv[3] if len(sys.argv) > 3 else "2"
tmpl = open(os.path.join(here, sys.argv[4] if len(sys.argv) > 4 else "seed_prompt.md")).read()
for line in open(os.path.join(here, "..", "properties.jsonl")):
    p = json.loads(line)
    if p["id"] == pid:
        break
else:
    sys.exit("no such property")
q = p["quantifier"]
q = q["text"] if isinstance(q, dict) else q
a = p["anchors"]
anchors = "files " + ", ".join(a.get("files", [])) + "; " + "; ".join(f"{m['name']} ({m['where']})" for m in a.get("mechanism", []))
out = (tmpl.replace("{WT}", wt).replace("{ID}", pid).replace("{TITLE}", p["title"]).replace("{STATEMENT}", p["statement"])
       .replace("{QUANTIFIER}", q).replace("{WHY}", str(p.get("why_tests_cant", ""))).replace("{ANCHORS}", anchors).replace("{N}", n))
print(out)
