#!/venv/bin/python
"""Regenerates /verif/MANIFEST.json from the table below (single source of truth for claims)."""
import json
import os
import sys

HERE = os.path.dirname(os.path.dirname(os.path.abspath(__file__)))
sys.path.insert(0, HERE)

ALL = [f"C{i:02d}" for i in range(1, 21)]

# pid -> (technique, level text, level note (undecided clauses / trusted base))
CLAIMS = {}
try:
    from sa.claims import CLAIMS  # noqa: F811
except Exception:
    pass

NOT_YET = "static check for this property not built yet (work in progress in this round); nothing is claimed"


def main():
    checks = []
    na = []
    for pid in ALL:
        if pid in CLAIMS and os.path.exists(os.path.join(HERE, "sa", "rules", pid.lower() + ".py")):
            c = CLAIMS[pid]
            checks.append({
                "property_id": pid,
                "quick_cmd": f"./check {pid} --tier quick",
                "thorough_cmd": f"./check {pid} --tier thorough",
                "evidence_file": f"/verif/evidence/{pid}.json",
                "replay_cmd_template": f"./check {pid} --replay {{path}}",
                "engine": "sa",
                "technique": c["technique"],
                "level_claimed": {"category": "other", "text": c["level"], "design_ref": f"DESIGN.md section 5, {pid}"},
                "level_note": c["note"],
            })
        else:
            na.append({"property_id": pid, "reason": CLAIMS.get(pid, {}).get("na", NOT_YET)})
    man = {
        "version": 1,
        "setup_cmd": "/venv/bin/python -m compileall -q sa && ./check --self",
        "hooks": {
            "guard": "UBERMAG_DISCRETISEDFIELD_VERIF",
            "enable": "no hooks: the analysis only parses /repo sources (stdlib ast); the guard variable is unused",
            "baseline_off_cmd": "cd /repo && /venv/bin/python -m pytest -ra -q -p no:cacheprovider --timeout=900 "
                                "--continue-on-collection-errors",
            "source_commits": [],
            "add_only": True,
        },
        "engines": [{
            "name": "sa",
            "path": "/verif/sa",
            "serves_properties": [c["property_id"] for c in checks],
            "kind_free_text": "repository-specific static analysis over the parsed source (stdlib ast): program model, "
                              "statement CFG with dominators and reaching definitions, term normal form over rational "
                              "polynomials with congruence-interned atoms, constructor-keyword provenance matrix, "
                              "alias/effect summaries, write-site audit, writer/reader sibling agreement, literal tables; canonical "
                              "control-flow form, reach conditions on the CFG, gated reaching definitions, equivalence of a "
                              "function with its reference form by value numbering over gated alternatives (sa/equiv.py)",
        }],
        "checks": checks,
        "not_applicable": na,
        "notes": "All checks are static: they parse /repo/discretisedfield on every run and never import or execute it. "
                 "Exit 0 held, 1 VIOLATION, 2 ANALYSIS-ERROR (anchor vanished / unrecognised form / floor not met). "
                 "Known findings: /verif/KNOWN_FINDINGS.txt. Corpora: seeded/ (80 independently produced regressions), benign/ (60 "
                 "independently produced behaviour-preserving refactorings), reference/ (the form of every function the rules "
                 "were confirmed against).",
    }
    with open(os.path.join(HERE, "MANIFEST.json"), "w") as fh:
        json.dump(man, fh, indent=1)
    print(f"MANIFEST.json: {len(checks)} checks, {len(na)} not_applicable")


if __name__ == "__main__":
    main()
